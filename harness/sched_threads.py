"""K5 / C20 — the real threaded `socketio.Server` under a DETERMINISTIC scheduler.

`server.manager` and `server.eio` are replaced by proxy objects that hand control to the scheduler
before every method call the server makes on them; the application's disconnect handler does the
same on entry.  One OS thread per terminating action, exactly one runnable at a time; the threading
primitives are used for the hand-off only (a `Condition`), never a sleep.  A *schedule* is the list
of thread indices "who performs its next access"; `step(i)` lets thread i perform the access it is
parked in front of and run up to its next access (or its end).

Options of a run: `nested` — pre-emption ALSO at the calls the manager makes to its own methods
(`basic_disconnect`, `basic_leave_room` per room, `is_connected` inside `can_disconnect`) while the
run is gate-serial; `side` — concurrent operations that are not terminating actions of the sid
(refused CONNECT of another transport, disconnect() of another client of the namespace, an EVENT
with ack id of the same client): real threads, not tasks of the model, judged by the oracle.

`half_binary` — the client has sent the header packet of a binary event / ack (`{'ns', 'n' attachments announced,
'arrived', 'ack'}`) but not all of its attachments when the terminating actions start (not combined with actions that are
further packets of that client: they would be taken for the missing attachment).  At quiescence `finish()` also walks the
server's object graph for anything that still names what departed (`trace_left`).

`manager` — which client manager the server has: the plain `Manager` (default) or `'pubsub'`, the in-memory
`PubSubManager` subclass of harness/world_pubsub.py (one host on its channel; initialised by the server's first
connection, the listener task is not started: the action `queue` IS the listener thread).  With it `disconnect()`
goes through `PubSubManager.can_disconnect` (its own `is_connected` test; a sid it does not consider connected
is re-submitted locally: `_handle_disconnect(message)` -> `server.disconnect(ignore_queue=True)`, whose
`manager.is_connected` goes through the proxy again: a sub-step of the same check) and the further terminating
action `queue` exists: a `disconnect` message for the sid published by another host, applied by the listener
thread (the real `PubSubManager._thread()` consuming exactly that channel entry).

`Run` executes one schedule on a fresh real server and records, per step, the access performed
(with its result) — from which the model schedule, the gate windows, and the observable outcome
(handler calls with reasons, exceptions, residue in the manager) are derived.
"""
import sys
import threading

from . import common as C
from .world import ServerWorld, _Quiet

from engineio import packet as eio_packet

HANDOFF_TIMEOUT = 60.0        # safety net against a deadlocked hand-off (→ infrastructure error)

NS_NAMES = ['/', '/b']        # namespace numbers of the model: 0, 1


class Det:
    """hand-off scheduler: one semaphore per thread (and one for the controller); whoever holds the
    baton runs, everybody else is blocked in `acquire`"""

    def __init__(self):
        self.main = self._baton()
        self.sems = {}
        self.local = threading.local()
        self.pending = {}          # idx -> label of the access the thread is parked at; None = finished
        self.result = {}           # idx -> ('ok', value) | ('exc', class, text)
        self.threads = []

    @staticmethod
    def _baton():
        # a plain lock used as a binary semaphore (released by the thread that hands over)
        b = threading.Lock()
        b.acquire()
        return b

    def idx(self):
        return getattr(self.local, 'idx', None)

    def _take(self, sem, who):
        if not sem.acquire(timeout=HANDOFF_TIMEOUT):
            raise C.Infra('scheduler hand-off timed out waiting for %r (deadlock?)' % (who,))

    def spawn(self, idx, fn):
        sem = self.sems[idx] = self._baton()

        def body():
            self.local.idx = idx
            self._take(sem, idx)
            try:
                r = ('ok', fn())
            except BaseException as e:   # noqa
                r = ('exc', type(e).__name__, str(e))
            self.result[idx] = r
            self.pending[idx] = None
            self.main.release()
        self.pending[idx] = ('start',)
        th = threading.Thread(target=body, daemon=True)
        self.threads.append(th)
        th.start()

    def point(self, label):
        """called by a worker in front of an access; returns when the worker is scheduled again"""
        idx = self.idx()
        if idx is None:
            return
        self.pending[idx] = label
        self.main.release()
        self._take(self.sems[idx], idx)

    def step(self, idx):
        self.sems[idx].release()
        self._take(self.main, 'main')

    def join(self):
        for th in self.threads:
            th.join(HANDOFF_TIMEOUT)


class Proxy:
    """every method call through this object is a pre-emption point"""

    def __init__(self, real, det, tag, log):
        object.__setattr__(self, '_real', real)
        object.__setattr__(self, '_det', det)
        object.__setattr__(self, '_tag', tag)
        object.__setattr__(self, '_log', log)

    def __getattr__(self, name):
        v = getattr(self._real, name)
        if not callable(v) or self._det.idx() is None:
            return v
        det, tag, log = self._det, self._tag, self._log

        def call(*a, **k):
            ns = k.get('namespace', a[1] if len(a) > 1 and isinstance(a[1], str) else None)
            if tag == 'eio':
                ns = None
            lt = tag
            if tag == 'mgr' and name == 'is_connected' and getattr(det.local, 'depth', 0) > 0:
                # the manager calls the server back from inside a manager call of the server
                # (PubSubManager.can_disconnect -> _handle_disconnect -> server.disconnect(ignore_queue=True)):
                # the membership test is evaluated again, a sub-step of the check in progress
                lt = 'mgr*'
            det.point((lt, name, ns))
            det.local.depth = getattr(det.local, 'depth', 0) + 1
            try:
                r = getattr(v, '_orig', v)(*a, **k)
            finally:
                det.local.depth -= 1
            rec = r
            if name == 'get_namespaces':
                rec = list(r)
            elif not isinstance(r, (bool, str, type(None))):
                rec = None
            log.append((det.idx(), lt, name, ns, rec))
            return r
        return call

    def __setattr__(self, name, value):
        setattr(self._real, name, value)


class ThreadLog(_Quiet):
    """logger that records `exception()` calls with the thread that made them"""

    def __init__(self, det):
        super().__init__()
        self.det = det
        self.contained = []

    def exception(self, msg, *a, **k):
        self.contained.append((self.det.idx(), str(msg), type(sys.exc_info()[1]).__name__))


NESTED = ('basic_disconnect', 'basic_leave_room', 'is_connected')
ACTIONS = ('api', 'client', 'lost', 'other_api', 'other_client', 'queue')
MODEL_TASK = {
    'api': ('api', [0]), 'client': ('clientDisc', [0]), 'lost': ('lost', [0, 1]),
    'other_api': ('api', [1]), 'other_client': ('clientDisc', [1]),
    # a `disconnect` message from the channel, applied by the listener thread: server.disconnect(ignore_queue=True)
    'queue': ('api', [0]),
}
LISTENER_CONTAINS = 'Handler error in pubsub listening thread'
REASON_KIND = {'server disconnect': 'api', 'client disconnect': 'clientDisc', 'transport close': 'lost'}

# access name -> model pc whose step it is (None: no model step)
ACCESS_PC = {
    ('mgr', 'get_namespaces'): None, ('mgr', 'sid_from_eio_sid'): None,
    ('mgr', 'is_connected'): 'check', ('mgr', 'can_disconnect'): 'check',
    ('mgr', 'pre_disconnect'): 'mark', ('eio', 'send'): 'send', ('handler',): 'handler',
    ('mgr', 'disconnect'): 'cleanup',
}


def access_key(label):
    return label[:2] if label[0] != 'handler' else ('handler',)


class Run:
    """one schedule on a fresh real threaded server.
    cfg = {'actions': [...], 'others': bool, 'nested': bool, 'manager': None | 'pubsub'}"""

    def __init__(self, cfg):
        self.cfg = cfg
        self.det = Det()
        det = self.det
        self.slog = ThreadLog(det)
        self.pubsub = cfg.get('manager') == 'pubsub'
        if 'queue' in cfg['actions'] and (not self.pubsub or list(cfg['actions']).count('queue') > 1):
            raise C.Infra('the action `queue` needs manager=pubsub and occurs at most once (a host has one listener)')
        m = None
        if self.pubsub:
            from . import world_pubsub as WP
            self.chan = WP.Channel()
            m = WP.manager_class('threading')(self.chan, 'this-host')
        self.w = w = ServerWorld('threading', manager=m, logger=self.slog)
        self.elog = ThreadLog(det)
        w.eio.logger = self.elog
        self.calls = []            # (thread, ns, sid, reason)
        self.access = []           # (thread, tag, name, ns, result)
        self.side = list(cfg.get('side') or [])
        self.connects = []         # (thread, tid, ns)
        self.ev_calls = []         # (thread, sid, args)
        self.samples = {}          # side thread -> [is the session of T1 on '/' connected?] before each of its steps
        sio = w.sio

        def mk(ns):
            def on_disconnect(sid, reason):
                det.point(('handler', ns))
                self.access.append((det.idx(), 'handler', None, ns, None))
                self.calls.append((det.idx(), ns, sid, reason))
            return on_disconnect
        def mkc(ns):
            def on_connect(sid, env):
                self.connects.append((det.idx(), env.get('verif.tid'), ns))
                if env.get('verif.tid') == 'T3':
                    return False
            return on_connect

        def on_ev(sid, *args):
            self.ev_calls.append((det.idx(), sid, list(args)))
            return 'ok'
        for ns in NS_NAMES:
            sio.on('connect', mkc(ns), namespace=ns)
            sio.on('disconnect', mk(ns), namespace=ns)
        sio.on('ev', on_ev, namespace='/')
        w.open('T1')
        w.recv('T1', '0')
        w.recv('T1', '0/b,')
        if cfg.get('others') or 'bystander_disconnect' in self.side:
            w.open('T2')
            w.recv('T2', '0')
        if 'bystander_refused' in self.side:
            w.open('T3')
        self.mgr = sio.manager
        self.sids = [self.mgr.sid_from_eio_sid('T1', ns) for ns in NS_NAMES]
        if self.pubsub:
            # the first connection initialised the manager; its listener task is not run: `queue` is that thread
            if self.mgr is not m or not sio.manager_initialized or m.init_calls != 1:
                raise C.Infra('the PubSubManager was not initialised by the first connection')
            w.background[:] = [b for b in w.background if b[0] != m._thread]
            import pickle
            # what another host's (or a write-only manager's) disconnect(sid) publishes
            self.chan.msgs.append(pickle.dumps({'method': 'disconnect', 'sid': self.sids[0], 'namespace': '/',
                                                'host_id': 'another-host'}))
            m.cursor, m.limit = len(self.chan.msgs) - 1, len(self.chan.msgs)
        self.sid2 = self.mgr.sid_from_eio_sid('T2', '/') if 'T2' in w.socks else None
        self.half_binary = None
        if cfg.get('half_binary'):
            # the client is in the middle of sending a binary event / ack when the terminating actions start: the header
            # packet has arrived, (some of) its attachments have not
            if any(a in ('client', 'other_client') for a in cfg['actions']) or 'event' in self.side:
                raise C.Infra('half_binary: the next packet of the client would be taken for the missing attachment')
            hb = cfg['half_binary']
            head = '%d%d-%s%s' % (6 if hb.get('ack') else 5, hb.get('n', 1), '' if hb.get('ns', '/') == '/' else hb['ns'] + ',',
                                  '1[{"_placeholder":true,"num":0}]' if hb.get('ack')
                                  else '["ev",{"_placeholder":true,"num":0}]')
            w.recv('T1', head)
            for _ in range(hb.get('arrived', 0)):
                w.recv('T1', b'\x01\x02')
            self.half_binary = head
            if self.ev_calls:
                raise C.Infra('half_binary: the event was dispatched before its last attachment')
        w.sent_all()
        if cfg.get('nested'):
            # pre-emption also at the calls the manager makes to its own methods while the server is
            # inside one of its calls (label 'mgr*'): the steps of `manager.disconnect` and the
            # `is_connected` inside `can_disconnect`
            for name in NESTED:
                self._nest(name)
        sio.manager = Proxy(self.mgr, det, 'mgr', self.access)
        sio.eio = Proxy(w.eio, det, 'eio', self.access)
        sock = w.socks['T1']
        fns = {
            'api': lambda: sio.disconnect(self.sids[0], namespace='/'),
            'client': lambda: sock.receive(eio_packet.Packet(eio_packet.MESSAGE, '1')),
            'lost': lambda: sock.close(wait=False, abort=True, reason=w.eio.reason.TRANSPORT_CLOSE),
            'other_api': lambda: sio.disconnect(self.sids[1], namespace='/b'),
            'other_client': lambda: sock.receive(eio_packet.Packet(eio_packet.MESSAGE, '1/b,')),
            # the listener thread: the real PubSubManager._thread() consumes the one pending channel entry
            'queue': lambda: self.mgr._thread(),
            # side actions: not terminating actions of the sid, no task of the model
            'bystander_refused': lambda: w.socks['T3'].receive(eio_packet.Packet(eio_packet.MESSAGE, '0')),
            'bystander_disconnect': lambda: sio.disconnect(self.sid2, namespace='/'),
            'event': lambda: sock.receive(eio_packet.Packet(eio_packet.MESSAGE, '27["ev",1]')),
        }
        self.n_model = len(cfg['actions'])
        self.n = self.n_model + len(self.side)
        for i, a in enumerate(list(cfg['actions']) + self.side):
            det.spawn(i, fns[a])
        self.sched = []            # real schedule (thread indices)
        self.labels = []           # label of the access performed at each step
        # the code in front of a thread's first manager/transport access touches neither: run it now
        for i in range(self.n):
            det.step(i)

    def _nest(self, name):
        det, mgr, access = self.det, self.mgr, self.access
        real = getattr(mgr, name)

        def nested(*a, **k):
            # (once two gate windows overlap the run is in the region of the known finding: the rest of
            # it is explored at server→manager granularity only)
            if det.idx() is not None and getattr(det.local, 'depth', 0) > 0 and not self._overlap(None):
                ns = k.get('namespace', a[1] if len(a) > 1 and isinstance(a[1], str) else None)
                det.point(('mgr*', name, ns))
                access.append((det.idx(), 'mgr*', name, ns, None))
            return real(*a, **k)
        nested._orig = real
        setattr(mgr, name, nested)

    def enabled(self):
        return [i for i in range(self.n) if self.det.pending[i] is not None]

    def label(self, i):
        return self.det.pending[i]

    def step(self, i):
        if i >= self.n_model and self.side[i - self.n_model] == 'event':
            cur = self.mgr.sid_from_eio_sid('T1', '/')
            self.samples.setdefault(i, []).append(bool(cur is not None and self.mgr.is_connected(cur, '/')))
        self.sched.append(i)
        self.labels.append(self.det.pending[i])
        self.det.step(i)

    # ------------------------------------------------------------------ observation
    def finish(self):
        det, w, mgr = self.det, self.w, self.mgr
        det.join()
        acts = self.cfg['actions']
        per_thread = {i: [a for a in self.access if a[0] == i] for i in range(self.n)}
        # model schedule: one entry per access that is a model step; namespaces a transport-loss loop did
        # not visit because they were gone at its snapshot are failed checks in the model
        unmapped = []
        msched = []
        mpcs = []                   # the pc each model step must be executing, read off the real access
        snap = {}
        visited = {i: [] for i in range(self.n)}
        ai = {i: 0 for i in range(self.n)}
        # an access of the server and the nested manager calls it leads to form one group; the model
        # step of the group is placed at its last sub-step (`can_disconnect` evaluates `is_connected`
        # there; `manager.disconnect` has removed both membership and mark only there)
        emit = {}
        open_group = {}
        for pos, (i, lab) in enumerate(zip(self.sched, self.labels)):
            if lab[0] == 'mgr*' and i in open_group:
                emit[pos] = emit.pop(open_group[i])
                open_group[i] = pos
            else:
                emit[pos] = lab
                open_group[i] = pos
        for pos, i in enumerate(self.sched):
            if pos not in emit or i >= self.n_model:      # side actions are not tasks of the model
                continue
            lab = emit[pos]
            key = access_key(lab)
            if key not in ACCESS_PC:
                unmapped.append(lab)
                continue
            pc = ACCESS_PC[key]
            if key == ('mgr', 'get_namespaces'):
                got = [a for a in per_thread[i] if a[2] == 'get_namespaces']
                snap[i] = got[0][4] if got else []
            if pc is None:
                continue
            if acts[i] == 'lost' and pc == 'check':
                nsn = NS_NAMES.index(lab[2])
                todo = MODEL_TASK['lost'][1]
                for m in todo:
                    if m < nsn and m not in visited[i] and NS_NAMES[m] not in snap.get(i, NS_NAMES):
                        msched.append(i)
                        mpcs.append('check')
                        visited[i].append(m)
                visited[i].append(nsn)
            msched.append(i)
            mpcs.append(pc)
        for i in range(self.n_model):
            if acts[i] == 'lost':
                for m in MODEL_TASK['lost'][1]:
                    if m not in visited[i]:
                        msched.append(i)
                        mpcs.append('check')
                        visited[i].append(m)
        overlap = self._overlap(per_thread)
        calls, by_calls, stray = {}, [], {}
        for (t, ns, sid, reason) in self.calls:
            k = REASON_KIND.get(reason, str(reason))
            if sid == self.sids[NS_NAMES.index(ns)]:
                calls.setdefault(NS_NAMES.index(ns), []).append(k)
            elif sid == self.sid2:
                by_calls.append(k)
            else:
                stray.setdefault(str(sid), []).append(k)
        raised = []
        for i in range(self.n):
            r = det.result.get(i)
            if r is None:
                raised.append((i, 'never finished'))
            elif r[0] == 'exc':
                raised.append((i, r[1]))
        for (t, msg, cls) in self.elog.contained:        # engine.io contained what escaped socket.io
            raised.append((t, cls))
        # what server.disconnect() raised on the listener thread is contained by the listener's catch-all, one
        # frame above the kernel: for the model (and for the property) the call raised
        listener_contained = [(t, cls) for (t, msg, cls) in self.slog.contained if msg.startswith(LISTENER_CONTAINS)]
        raised += listener_contained
        swallowed = [(t, cls) for (t, msg, cls) in self.slog.contained if not msg.startswith(LISTENER_CONTAINS)]
        published = [d for (_h, d) in self.chan.published] if self.pubsub else []
        residue = {}
        for n, ns in enumerate(NS_NAMES):
            sid = self.sids[n]
            mem = ns in mgr.rooms and any(sid in room for room in mgr.rooms[ns].values())
            pend = list(mgr.pending_disconnect.get(ns, [])).count(sid)
            residue[n] = (mem, pend)
        frames = w.sent('T1')
        disc, acks = {}, []
        from .world import decode_frames
        for (ptype, pns, pid, pdata) in [f for f in decode_frames(frames) if len(f) == 4]:
            if ptype == 1:
                disc[NS_NAMES.index(pns)] = disc.get(NS_NAMES.index(pns), 0) + 1
            elif ptype == 3:
                acks.append((pns, pid, pdata))
        other_ok = True
        if 'T2' in w.socks:
            s2 = mgr.sid_from_eio_sid('T2', '/')
            other_ok = s2 is not None and bool(mgr.is_connected(s2, '/'))
        side = {}
        if 'bystander_disconnect' in self.side:
            side['bystander_disconnect'] = {'calls': by_calls, 'still_connected': other_ok,
                                            'pending': list(mgr.pending_disconnect.get('/', [])).count(self.sid2)}
            other_ok = True
        if 'bystander_refused' in self.side:
            side['bystander_refused'] = {'frames': [(f[0], f[3]) for f in decode_frames(w.sent('T3')) if len(f) == 4],
                                         'registered': mgr.sid_from_eio_sid('T3', '/') is not None}
        if 'event' in self.side:
            ei = self.n_model + self.side.index('event')
            side['event'] = {'connected_before_each_step': self.samples.get(ei, []),
                             'handler_runs': len(self.ev_calls), 'acks': acks}
        # model-free: where the server object still refers to what has departed — the transport id when the transport
        # was lost, the session ids of the namespaces that were ended (generic walk of the object graph, the one C11 uses;
        # the scheduler's proxies are taken out first: the walk follows library objects only)
        w.sio.manager, w.sio.eio = mgr, w.eio
        from .sched_async import graph_probe
        gone = sorted(set(self.sids[n] for a in acts for n in MODEL_TASK[a][1]))
        # (gate-overlapping runs of the configurations without a half-received packet: region of the known finding, judged
        # by name only — the walk is the expensive part of a run)
        trace_left = None
        if self.half_binary or not overlap:
            trace_left = graph_probe(w.sio).mentions('T1' if 'lost' in acts else '\x00nobody', gone)
        return {
            'trace_left': trace_left, 'half_binary': self.half_binary,
            'actions': list(acts), 'others': bool(self.cfg.get('others') or 'T2' in w.socks),
            'manager': 'pubsub' if self.pubsub else 'plain', 'listener_contained': sorted(listener_contained),
            'published': [(d.get('method'), d.get('namespace'), d.get('sid') == self.sids[0]) for d in published],
            'side_actions': list(self.side), 'side': side, 'stray_calls': stray,
            'sched': list(self.sched),
            'labels': ['%s.%s%s' % (l[0], l[1], '' if len(l) < 3 or l[2] is None else '(%s)' % l[2])
                       if l[0] != 'handler' else 'handler(%s)' % l[1] for l in self.labels],
            'msched': msched, 'mpcs': mpcs, 'unmapped': [list(map(str, u)) for u in unmapped], 'overlap': overlap,
            'calls': {k: v for k, v in sorted(calls.items())}, 'raised': sorted(raised),
            'swallowed': swallowed, 'residue': residue, 'disc_packets': disc,
            'environ_left': 'T1' in w.sio.environ, 'other_client_ok': other_ok,
        }

    def _overlap(self, per_thread):
        """some thread's check returned True on a namespace while another thread was between its own
        successful check on that namespace and its next access"""
        # reconstruct the global order of accesses: self.access is appended in execution order
        window = {}
        overlap = False
        for (t, tag, name, ns, res) in self.access:
            window.pop(t, None)
            if t is None or t >= self.n_model:
                continue
            if tag == 'mgr' and name in ('is_connected', 'can_disconnect') and res is True:
                if any(w_ns == ns for tt, w_ns in window.items() if tt != t):
                    overlap = True
                window[t] = ns
        return overlap


def explore(cfg, indep=None, limit=None, serial_only=False):
    """Stateless depth-first enumeration of every maximal schedule of `cfg`, each executed once on a
    fresh real server.  With `indep` (a symmetric predicate on (thread, label) pairs) sleep sets
    prune schedules that differ from an explored one only by the order of adjacent independent
    accesses.  With `serial_only` the search does not branch any more once two gate windows overlap
    (exhaustive over the gate-serial schedules and over the ways into an overlap).  Yields the
    observation of every complete run."""
    stack = []          # frames: {'en': [...], 'labels': {...}, 'sleep': {thread: label}, 'pos': k}
    n_runs = 0
    while True:
        run = Run(cfg)
        for fr in stack:
            run.step(fr['cand'][fr['pos']])
        blocked = False
        while True:
            en = run.enabled()
            if not en:
                break
            labels = {i: run.label(i) for i in en}
            if stack:
                pf = stack[-1]
                t = pf['cand'][pf['pos']]
                lt = pf['labels'][t]
                inherited = dict(pf['sleep'])
                for u in pf['cand'][:pf['pos']]:
                    inherited[u] = pf['labels'][u]
                sleep = {u: lu for u, lu in inherited.items()
                         if u != t and indep is not None and indep((u, lu), (t, lt))}
            else:
                sleep = {}
            cand = [i for i in en if i not in sleep] if indep is not None else en
            if not cand:
                blocked = True
                break
            if serial_only and run._overlap(None):
                # the run has entered the region of the known finding: finish it, do not branch further
                cand = cand[:1]
            stack.append({'cand': cand, 'labels': labels, 'sleep': sleep, 'pos': 0})
            run.step(cand[0])
        if blocked:
            # let the parked threads finish so that nothing is left running
            while run.enabled():
                run.step(run.enabled()[0])
            run.det.join()
        else:
            n_runs += 1
            yield run.finish()
            if limit is not None and n_runs >= limit:
                return
        while stack and stack[-1]['pos'] + 1 >= len(stack[-1]['cand']):
            stack.pop()
        if not stack:
            return
        stack[-1]['pos'] += 1


def random_schedule(cfg, rng):
    run = Run(cfg)
    while True:
        en = run.enabled()
        if not en:
            break
        run.step(rng.choice(en))
    return run.finish()


def replay_schedule(cfg, sched):
    run = Run(cfg)
    for i in sched:
        if i in run.enabled():
            run.step(i)
    while run.enabled():
        run.step(run.enabled()[0])
    return run.finish()


# ---------------------------------------------------------------------- independence (3 actions)

READS = ('get_namespaces', 'sid_from_eio_sid', 'is_connected', 'can_disconnect')


def independent(a, b):
    """Declared commutation of two accesses of different threads (used only for the sleep-set
    reduction of the three-action enumeration): the transport's `send` touches no manager state; the
    harness-owned handler touches neither; manager reads commute; manager accesses on different
    namespaces commute except that `disconnect` may delete a namespace `get_namespaces` lists."""
    (_, la), (_, lb) = a, b
    ka, kb = la[0], lb[0]
    if ka == 'eio' or kb == 'eio':
        return not (ka == 'eio' and kb == 'eio')
    if ka == 'handler' or kb == 'handler':
        if ka == 'handler' and kb == 'handler':
            return la[1] != lb[1]
        return True
    na, nb = la[1], lb[1]
    if na in READS and nb in READS:
        return True
    if 'get_namespaces' in (na, nb):
        return not any(x in (na, nb) for x in ('disconnect', 'basic_disconnect', 'basic_leave_room'))
    return la[2] != lb[2]


# ---------------------------------------------------------------------- model side

def model_line(obs):
    return {'tasks': [{'kind': MODEL_TASK[a][0], 'ns': MODEL_TASK[a][1]} for a in obs['actions']],
            'conn': [0, 1], 'others': [0] if obs['others'] else [], 'sched': obs['msched'],
            'atomic': False}
