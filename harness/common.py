"""Shared machinery of every check: Lean build + audit, driver line protocol, evidence,
replays, known findings, verdicts.  See DESIGN.md §2.2."""
import fcntl
import hashlib
import json
import os
import random
import re
import subprocess
import sys
import time

ROOT = os.path.dirname(os.path.dirname(os.path.abspath(__file__)))
LEAN = os.path.join(ROOT, 'lean')
REPO = os.environ.get('VERIF_REPO', '/repo')
DRIVER = os.path.join(LEAN, '.lake', 'build', 'bin', 'siodriver')
ALLOWED_AXIOMS = {'propext', 'Classical.choice', 'Quot.sound'}
FORBIDDEN = re.compile(
    r'\b(sorry|admit|native_decide|bv_decide|implemented_by)\b|^\s*axiom\s|\bunsafe\s|maxHeartbeats\s+0\b',
    re.M)

os.environ.setdefault('PYTHON_SOCKETIO_VERIF', '1')
if os.path.join(REPO, 'src') not in sys.path:
    sys.path.insert(0, os.path.join(REPO, 'src'))


class Infra(Exception):
    """Infrastructure failure: exit 2, never a VIOLATION."""


# ---------------------------------------------------------------- Lean build / audit

def _lake(args, timeout=1500):
    lock = open(os.path.join(LEAN, '.build.lock'), 'w')
    fcntl.flock(lock, fcntl.LOCK_EX)
    try:
        p = subprocess.run(['lake'] + args, cwd=LEAN, stdout=subprocess.PIPE,
                           stderr=subprocess.STDOUT, text=True, timeout=timeout)
        return p.returncode, p.stdout
    finally:
        fcntl.flock(lock, fcntl.LOCK_UN)
        lock.close()


def build(targets):
    """lake build of the given targets; returns (ok, output)."""
    rc, out = _lake(['build'] + list(targets))
    return rc == 0, out


_built = set()


def driver_path(kernel):
    return os.path.join(LEAN, '.lake', 'build', 'bin', 'sd_' + kernel)


def build_driver(kernel=None):
    """Each kernel has its own executable (sd_<kernel>) so that one kernel's build problem cannot
    stop the checks of the others.  Built (no-op when fresh) once per process and kernel."""
    if kernel is None or kernel in _built:
        return
    ok, out = build(['sd_' + kernel])
    if not ok:
        raise Infra('driver build failed:\n' + out[-3000:])
    _built.add(kernel)


def strip_comments(src):
    # nested block comments /- -/ and line comments --
    out = []
    i = 0
    depth = 0
    n = len(src)
    while i < n:
        if src.startswith('/-', i):
            depth += 1
            i += 2
        elif depth and src.startswith('-/', i):
            depth -= 1
            i += 2
        elif depth:
            i += 1
        elif src.startswith('--', i):
            j = src.find('\n', i)
            i = n if j < 0 else j
        else:
            out.append(src[i])
            i += 1
    return ''.join(out)


def import_closure(prop_id):
    """Lean files (relative to lean/) that Sio.Props.<id> transitively imports from this project."""
    todo = ['Sio.Props.' + prop_id, 'Sio.Audit.' + prop_id]
    seen = {}
    while todo:
        m = todo.pop()
        if m in seen:
            continue
        path = os.path.join(LEAN, *m.split('.')) + '.lean'
        if not os.path.exists(path):
            continue
        src = open(path).read()
        seen[m] = path
        for imp in re.findall(r'^\s*(?:public\s+)?import\s+(Sio\.[\w.]+)', src, re.M):
            todo.append(imp)
    return sorted(seen.values())


def grep_forbidden(prop_id=None):
    """forbidden tokens in the files the property's theorems depend on (comments stripped)"""
    hits = []
    if prop_id is None:
        files = [os.path.join(b, f) for b, _, fs in os.walk(os.path.join(LEAN, 'Sio')) for f in fs if f.endswith('.lean')]
    else:
        files = import_closure(prop_id)
    for p in files:
        src = strip_comments(open(p).read())
        for m in FORBIDDEN.finditer(src):
            hits.append('%s: %s' % (os.path.relpath(p, LEAN), m.group(0).strip()))
    return hits


def audit(prop_id):
    """Build Sio.Props.<id>, run `#print axioms` for every theorem listed in Sio/Audit/<id>.lean.
    Returns dict(obligations, discharged, theorems=[(name, axioms)], problems=[...])."""
    res = {'obligations': 0, 'discharged': 0, 'theorems': [], 'problems': []}
    audit_file = os.path.join(LEAN, 'Sio', 'Audit', prop_id + '.lean')
    if not os.path.exists(audit_file):
        res['problems'].append('no audit file for ' + prop_id)
        return res
    wanted = re.findall(r'#print axioms\s+(\S+)', open(audit_file).read())
    res['obligations'] = len(wanted)
    ok, out = build(['Sio.Props.' + prop_id])
    if not ok:
        res['problems'].append('lake build Sio.Props.%s failed:\n%s' % (prop_id, out[-4000:]))
        return res
    lock = open(os.path.join(LEAN, '.build.lock'), 'w')
    fcntl.flock(lock, fcntl.LOCK_SH)
    try:
        p = subprocess.run(['lake', 'env', 'lean', os.path.relpath(audit_file, LEAN)], cwd=LEAN,
                           stdout=subprocess.PIPE, stderr=subprocess.STDOUT, text=True, timeout=900)
    finally:
        lock.close()
    text = p.stdout
    if p.returncode != 0:
        res['problems'].append('audit file failed:\n' + text[-3000:])
        return res
    found = {}
    for m in re.finditer(r"'([^']+)' depends on axioms: \[([^\]]*)\]", text, re.S):
        found[m.group(1)] = [a.strip() for a in m.group(2).replace('\n', ' ').split(',') if a.strip()]
    for m in re.finditer(r"'([^']+)' does not depend on any axioms", text):
        found[m.group(1)] = []
    for name in wanted:
        if name not in found:
            res['problems'].append('theorem %s not reported by #print axioms' % name)
            continue
        ax = found[name]
        res['theorems'].append((name, ax))
        bad = [a for a in ax if a not in ALLOWED_AXIOMS]
        if bad:
            res['problems'].append('theorem %s depends on %s' % (name, bad))
        else:
            res['discharged'] += 1
    for h in grep_forbidden(prop_id):
        res['problems'].append('forbidden token: ' + h)
    return res


def leanchecker(modules):
    p = subprocess.run(['lake', 'env', 'leanchecker'] + modules, cwd=LEAN, stdout=subprocess.PIPE,
                       stderr=subprocess.STDOUT, text=True, timeout=3000)
    return p.returncode == 0, p.stdout[-2000:]


# ---------------------------------------------------------------- driver

class Driver:
    """One model process; `ask` is synchronous, `batch` pipes many lines at once."""

    def __init__(self, kernel):
        build_driver(kernel)
        self.kernel = kernel
        self.p = subprocess.Popen([driver_path(kernel)], stdin=subprocess.PIPE, stdout=subprocess.PIPE,
                                  text=True, bufsize=1)

    def ask(self, obj):
        self.p.stdin.write(json.dumps(obj) + '\n')
        self.p.stdin.flush()
        line = self.p.stdout.readline()
        if not line:
            raise Infra('driver %s died on %r' % (self.kernel, obj))
        r = json.loads(line)
        if isinstance(r, dict) and 'driver_error' in r:
            raise Infra('driver %s rejected %r: %s' % (self.kernel, obj, r['driver_error']))
        return r

    def close(self):
        try:
            self.p.stdin.close()
            self.p.wait(timeout=10)
        except Exception:
            self.p.kill()


def batch(kernel, objs):
    """Run a fresh driver over all lines; returns list of answers."""
    build_driver(kernel)
    data = ''.join(json.dumps(o) + '\n' for o in objs)
    p = subprocess.run([driver_path(kernel)], input=data, stdout=subprocess.PIPE, text=True, timeout=3000)
    lines = p.stdout.splitlines()
    if len(lines) != len(objs):
        raise Infra('driver %s answered %d lines for %d ops' % (kernel, len(lines), len(objs)))
    out = []
    for o, l in zip(objs, lines):
        r = json.loads(l)
        if isinstance(r, dict) and 'driver_error' in r:
            raise Infra('driver %s rejected %r: %s' % (kernel, o, r['driver_error']))
        out.append(r)
    return out


# ---------------------------------------------------------------- value conversions (py <-> wire)

class Unrepresentable(Exception):
    """A Python value the Lean value type cannot hold (lone surrogate code points)."""


def s2w(s):
    w = [ord(c) for c in s]
    if any(0xd800 <= c <= 0xdfff for c in w):
        raise Unrepresentable(s)
    return w


def w2s(w):
    return ''.join(chr(c) for c in w)


def os2w(s):
    return None if s is None else s2w(s)


def ow2s(w):
    return None if w is None else w2s(w)


def j2w(v):
    """Python value (JSON tree with bytes leaves) -> wire J."""
    if v is None:
        return None
    if v is True or v is False:
        return v
    if isinstance(v, int):
        return {'i': str(v)}
    if isinstance(v, float):
        return {'f': repr(v)}
    if isinstance(v, str):
        return {'s': s2w(v)}
    if isinstance(v, (bytes, bytearray)):
        return {'b': bytes(v).hex()}
    if isinstance(v, (list, tuple)):
        return [j2w(x) for x in v]
    if isinstance(v, dict):
        return {'o': [[s2w(k), j2w(x)] for k, x in v.items()]}
    raise TypeError('not in the value domain: %r' % (v,))


def w2j(w):
    if w is None or w is True or w is False:
        return w
    if isinstance(w, list):
        return [w2j(x) for x in w]
    if 'i' in w:
        return int(w['i'])
    if 'f' in w:
        return float(w['f'])
    if 's' in w:
        return w2s(w['s'])
    if 'b' in w:
        return bytes.fromhex(w['b'])
    if 'o' in w:
        return {w2s(k): w2j(x) for k, x in w['o']}
    raise ValueError(w)


def oj2w(v, present=True):
    return {'some': j2w(v)} if present else {'none': True}


def ow2j(w):
    """-> (present, value)"""
    if 'some' in w:
        return True, w2j(w['some'])
    return False, None


def data2w(d):
    if d is None:
        return {'none': True}
    if isinstance(d, tuple):
        return {'tuple': [j2w(x) for x in d]}
    return {'one': j2w(d)}


def same(a, b):
    """Python equality that also distinguishes bool/int/float and -0.0, list/tuple."""
    if type(a) is not type(b):
        return False
    if isinstance(a, (list, tuple)):
        return len(a) == len(b) and all(same(x, y) for x, y in zip(a, b))
    if isinstance(a, dict):
        return list(a.keys()) == list(b.keys()) and all(same(a[k], b[k]) for k in a)
    if isinstance(a, float):
        return repr(a) == repr(b)
    return a == b


def same_unordered(a, b):
    """`same`, but dict key order is not compared (Python's dict equality ignores it too)"""
    if type(a) is not type(b):
        return False
    if isinstance(a, (list, tuple)):
        return len(a) == len(b) and all(same_unordered(x, y) for x, y in zip(a, b))
    if isinstance(a, dict):
        return set(a.keys()) == set(b.keys()) and all(same_unordered(a[k], b[k]) for k in a)
    return same(a, b)


def digit_table(text):
    """Digit class of the non-ASCII characters of `text` (what the model takes as a parameter)."""
    import unicodedata
    t = {}
    for c in text:
        if ord(c) >= 128 and c.isdigit() and ord(c) not in t:
            try:
                t[ord(c)] = int(c)
            except ValueError:
                t[ord(c)] = -1
    return [[k, v] for k, v in sorted(t.items())]


def jsonable(v):
    """replay files: bytes and tuples survive the JSON round trip"""
    if isinstance(v, (bytes, bytearray)):
        return {'__bytes__': bytes(v).hex()}
    if isinstance(v, tuple):
        return {'__tuple__': [jsonable(x) for x in v]}
    if isinstance(v, list):
        return [jsonable(x) for x in v]
    if isinstance(v, dict):
        return {str(k): jsonable(x) for k, x in v.items()}
    if isinstance(v, (str, int, float, bool)) or v is None:
        return v
    return repr(v)


def unjsonable(v):
    if isinstance(v, list):
        return [unjsonable(x) for x in v]
    if isinstance(v, dict):
        if set(v) == {'__bytes__'}:
            return bytes.fromhex(v['__bytes__'])
        if set(v) == {'__tuple__'}:
            return tuple(unjsonable(x) for x in v['__tuple__'])
        return {k: unjsonable(x) for k, x in v.items()}
    return v


# ---------------------------------------------------------------- known findings

def known_findings():
    """-> (known: {prop: [(signature, text)]}, fixed: [line])"""
    path = os.path.join(ROOT, 'KNOWN_FINDINGS.txt')
    known, fixed = {}, []
    if os.path.exists(path):
        for line in open(path):
            line = line.strip()
            if not line or line.startswith('#'):
                continue
            m = re.match(r'known:\s+property=(\S+)\s+signature=(\S+)\s*(.*)', line)
            if m:
                known.setdefault(m.group(1), []).append((m.group(2), m.group(3)))
            elif line.startswith('fixed:'):
                fixed.append(line)
    return known, fixed


# ---------------------------------------------------------------- context / evidence / verdict

class Ctx:
    def __init__(self, prop, tier, seed, level, design_ref=''):
        self.prop = prop
        self.tier = tier
        self.seed = seed
        self.level = level
        self.t0 = time.time()
        self.rng = random.Random('%s/%d' % (prop, seed))
        self.coverage = {}
        self.assumptions = []
        self.violations = []        # (kind, description, replay_obj)
        self.known_hits = {}        # signature -> text
        self.notes = []
        self.counters = {}

    @property
    def thorough(self):
        return self.tier == 'thorough'

    def scale(self, quick, thorough):
        return thorough if self.thorough else quick

    def count(self, key, n=1):
        self.counters[key] = self.counters.get(key, 0) + n

    def violation(self, kind, desc, replay, no_input=False):
        """kind: 'oracle' (property fails on the implementation), 'correspondence' or 'proof'."""
        self.violations.append({'kind': kind, 'what': desc, 'replay': replay, 'no_input': no_input})

    def known(self, signature, text):
        self.known_hits[signature] = text

    def finish(self):
        os.makedirs(os.path.join(ROOT, 'evidence'), exist_ok=True)
        os.makedirs(os.path.join(ROOT, 'replays'), exist_ok=True)
        known, _fixed = known_findings()
        listed = dict(known.get(self.prop, []))
        real = []
        for sig, text in sorted(self.known_hits.items()):
            if sig in listed:
                print('KNOWN-FINDING: property=%s %s — %s' % (self.prop, sig, listed[sig] or text))
            else:
                real.append({'kind': 'oracle', 'what': 'unlisted finding %s: %s' % (sig, text),
                             'replay': {'signature': sig, 'what': text}, 'no_input': False})
        real += self.violations
        cov = dict(self.coverage)
        cov.setdefault('distribution', self.counters)
        ev = {
            'property_id': self.prop, 'tier': self.tier, 'seed': self.seed, 'level': self.level,
            'coverage': cov, 'assumptions': self.assumptions,
            'wall_s': round(time.time() - self.t0, 2), 'violations': len(real),
            'known_findings_reproduced': sorted(s for s in self.known_hits if s in listed),
            'notes': self.notes,
        }
        with open(os.path.join(ROOT, 'evidence', self.prop + '.json'), 'w') as f:
            json.dump(ev, f, indent=1, default=str)
            f.write('\n')
        if not real:
            print('OK property=%s tier=%s seed=%d wall=%.1fs %s' % (
                self.prop, self.tier, self.seed, time.time() - self.t0,
                json.dumps({k: v for k, v in cov.items() if isinstance(v, (int, bool))})))
            return 0
        # oracle-confirmed failures first
        real.sort(key=lambda v: (v['no_input'], v['kind'] != 'oracle'))
        seen = set()
        for v in real[:5]:
            body = json.dumps(v, sort_keys=True, default=str)
            sha = hashlib.sha1(body.encode()).hexdigest()[:10]
            if sha in seen:
                continue
            seen.add(sha)
            path = os.path.join('replays', '%s-%s.json' % (self.prop, sha))
            with open(os.path.join(ROOT, path), 'w') as f:
                json.dump(jsonable({'property': self.prop, 'seed': self.seed, 'tier': self.tier, **v}), f,
                          indent=1, default=str)
                f.write('\n')
            print('VIOLATION property=%s replay=%s%s' % (
                self.prop, path, ' no-failing-input-found' if v['no_input'] else ''))
            sys.stderr.write('  %s: %s\n' % (v['kind'], str(v['what'])[:600]))
        return 1


def proof_step(ctx, extra_trusted=()):
    """Steps 2-3 of DESIGN §2.2 for a hand-written model: build + axiom audit."""
    a = audit(ctx.prop)
    ctx.coverage['obligations'] = a['obligations']
    ctx.coverage['discharged'] = a['discharged']
    ctx.coverage['theorems'] = [{'name': n, 'axioms': ax} for n, ax in a['theorems']]
    ctx.coverage['checker_cmd'] = (
        'cd lean && lake build Sio.Props.%s && lake env lean Sio/Audit/%s.lean  (#print axioms; '
        'grep for sorry/admit/axiom/native_decide/bv_decide/implemented_by/unsafe)' % (ctx.prop, ctx.prop))
    ctx.coverage['trusted_base'] = [
        'Lean 4.33.0 kernel', 'axioms: propext, Classical.choice, Quot.sound (checked per theorem)',
        'hand-written model Sio/Model/*.lean tied to /repo by the correspondence run of this check',
    ] + list(extra_trusted)
    for pr in a['problems']:
        ctx.violation('proof', pr, {'theorem_or_build': pr}, no_input=True)
    # thorough tier: independent re-check of the compiled proofs (the other property modules call it themselves)
    if ctx.thorough and not a['problems'] and ctx.prop in ('C01', 'C04', 'C05', 'C06', 'C11', 'C12', 'C14', 'C16', 'C18', 'C20'):
        try:
            ok, out = leanchecker(['Sio.Props.' + ctx.prop])
        except subprocess.TimeoutExpired:
            ok, out = True, 'leanchecker timed out (not counted)'
        ctx.notes.append('leanchecker Sio.Props.%s: %s' % (ctx.prop, 'ok' if ok else 'FAILED'))
        ctx.coverage['leanchecker'] = 'ok' if ok else 'failed'
        if not ok:
            ctx.violation('proof', 'leanchecker rejected Sio.Props.%s: %s' % (ctx.prop, out), {'theorem_or_build': out},
                          no_input=True)
    return a


def fold_proof_failures(ctx):
    """DESIGN §2.2: a theorem that no longer checks is reported as `no-failing-input-found` only if
    the oracle found no failing input; otherwise the failing input is the report and carries the
    proof failure along."""
    proofs = [v for v in ctx.violations if v['kind'] == 'proof' and v['no_input']]
    oracles = [v for v in ctx.violations if v['kind'] == 'oracle' and not v['no_input']]
    if proofs and oracles:
        for v in oracles[:3]:
            if isinstance(v['replay'], dict):
                v['replay']['proof_obligations_failing'] = [str(p['what'])[:1500] for p in proofs]
        ctx.notes.append('proof obligations no longer checking (failing input found by the oracle): %s'
                         % [str(p['what'])[:200] for p in proofs])
        ctx.violations[:] = [v for v in ctx.violations if v not in proofs]


# ---------------------------------------------------------------- glue theorems (appended)

def _print_axioms(source, names, timeout=900):
    """Elaborate `source` followed by one `#print axioms` per name (lean --stdin).
    -> (found: {name: [axioms]}, output)"""
    text = source.rstrip('\n') + '\n' + ''.join('#print axioms %s\n' % n for n in names)
    lock = open(os.path.join(LEAN, '.build.lock'), 'w')
    fcntl.flock(lock, fcntl.LOCK_SH)
    try:
        p = subprocess.run(['lake', 'env', 'lean', '--stdin'], cwd=LEAN, input=text, stdout=subprocess.PIPE,
                           stderr=subprocess.STDOUT, text=True, timeout=timeout)
    finally:
        lock.close()
    found = {}
    for m in re.finditer(r"'([^']+)' depends on axioms: \[([^\]]*)\]", p.stdout, re.S):
        found[m.group(1)] = [a.strip() for a in m.group(2).replace('\n', ' ').split(',') if a.strip()]
    for m in re.finditer(r"'([^']+)' does not depend on any axioms", p.stdout):
        found[m.group(1)] = []
    return found, p.stdout


def audit_extra(ctx, module, names):
    """Further proof obligations of the property that live in Sio/Props/<module>.lean (the glue between
    the models, and between the models' constants and the source): regenerate Sio/Generated from the
    source, build Sio.Props.<module>, `#print axioms` of the listed theorems (short names, in namespace
    Sio.<module>), forbidden-token scan of the module's import closure.  Adds to
    ctx.coverage['obligations' / 'discharged' / 'theorems'] and reports like `proof_step`.

    When the module no longer builds (a regenerated constant changed), the module's text is elaborated
    directly: Lean keeps going after a failed proof and marks what depends on it with `sorryAx`, so only
    the listed theorems that are really affected are reported — a property is not blamed for a glue
    theorem of another property."""
    from . import regen
    problems = []
    try:
        regen.run(REPO)
    except regen.TranslatorError as e:
        problems.append('translator cannot regenerate Sio/Generated from %s (a stale file would be '
                        'checked instead): %s' % (REPO, e))
    full = ['Sio.%s.%s' % (module, n) for n in names]
    audit_file = os.path.join(LEAN, 'Sio', 'Audit', module + '.lean')
    listed = re.findall(r'#print axioms\s+(\S+)', open(audit_file).read()) if os.path.exists(audit_file) else []
    for n in full:
        if n not in listed:
            problems.append('theorem %s is not listed in Sio/Audit/%s.lean' % (n, module))
    ok, out = build(['Sio.Props.' + module])
    if ok:
        found, text = _print_axioms('import Sio.Props.%s' % module, full)
    else:
        # which targets failed?  (lake: "Some required targets logged failures:\n- Sio.X\n- …")
        failed = re.findall(r'^- (\S+)\s*$', out.split('Some required targets logged failures:')[-1], re.M) \
            if 'Some required targets logged failures:' in out else []
        broken_imports = [t for t in failed if t != 'Sio.Props.' + module]
        if broken_imports:
            # an import of the module no longer compiles: nothing of the module can be judged.  This is a
            # proof obligation that no longer checks (never an infrastructure error).
            errs = [ln for ln in out.splitlines() if ln.startswith('error:')][:8]
            problems.append('Sio.Props.%s cannot be checked: its import %s does not build: %s'
                            % (module, ', '.join(broken_imports), ' | '.join(e[:300] for e in errs)))
            found, text = {}, out
        else:
            src = open(os.path.join(LEAN, 'Sio', 'Props', module + '.lean')).read()
            found, text = _print_axioms(src, full)
            ctx.notes.append('lake build Sio.Props.%s failed; its theorems were judged one by one' % module)
            if not found and re.search(r'object file .* does not exist|unknown module prefix|could not resolve import',
                                       text):
                raise Infra('imports of Sio.Props.%s are not built although lake reports no failing import '
                            '(tree changed during the run?):\n%s' % (module, (out + '\n' + text)[-2000:]))
    theorems, discharged = [], 0
    for n in full:
        if n not in found:
            if not ok and broken_imports:
                continue            # reported once, above
            problems.append('theorem %s does not check (not reported by #print axioms):\n%s'
                            % (n, (text if ok else out + '\n' + text)[-2500:]))
            continue
        theorems.append({'name': n, 'axioms': found[n]})
        bad = [a for a in found[n] if a not in ALLOWED_AXIOMS]
        if bad:
            why = ''
            if 'sorryAx' in bad:
                errs = [ln for ln in text.splitlines() if 'error' in ln][:6]
                why = ' — a proof it depends on no longer checks: ' + ' | '.join(errs)
            problems.append('theorem %s depends on %s%s' % (n, bad, why))
        else:
            discharged += 1
    for h in grep_forbidden(module):
        problems.append('forbidden token: ' + h)
    ctx.coverage['obligations'] = ctx.coverage.get('obligations', 0) + len(full)
    ctx.coverage['discharged'] = ctx.coverage.get('discharged', 0) + discharged
    ctx.coverage['theorems'] = list(ctx.coverage.get('theorems', [])) + theorems
    ctx.coverage['checker_cmd'] = (ctx.coverage.get('checker_cmd', '') + ' ; bin/regen && cd lean && lake build '
                                   'Sio.Props.%s && lake env lean Sio/Audit/%s.lean' % (module, module)).lstrip(' ;')
    ctx.coverage['trusted_base'] = list(ctx.coverage.get('trusted_base', [])) + [
        'translator harness/translate_constants.py (ast -> Sio/Generated/Constants.lean; socketio source and the '
        'installed engineio package are read, not executed)']
    for pr in problems:
        ctx.violation('proof', pr, {'theorem_or_build': pr}, no_input=True)
    return {'obligations': len(full), 'discharged': discharged, 'theorems': theorems, 'problems': problems}
