import argparse
import importlib
import json
import os
import sys
import traceback

from . import common


def main():
    ap = argparse.ArgumentParser()
    ap.add_argument('prop')
    ap.add_argument('--tier', default=os.environ.get('VERIF_TIER', 'quick'))
    ap.add_argument('--replay')
    ap.add_argument('--seed', type=int, default=int(os.environ.get('VERIF_SEED', '0') or 0))
    a = ap.parse_args()
    if a.tier not in ('quick', 'thorough'):
        a.tier = 'quick'
    mod = importlib.import_module('harness.props.' + a.prop.lower())
    ctx = common.Ctx(a.prop, a.tier, a.seed, mod.LEVEL)
    try:
        if a.replay:
            r = json.load(open(a.replay))
            return mod.replay(ctx, r)
        if hasattr(mod, 'prepare'):          # translator kernels: regenerate Sio/Generated before building
            mod.prepare(ctx)
        mod.run(ctx)
        return ctx.finish()
    except common.Infra as e:
        sys.stderr.write('INFRA: %s\n' % e)
        return 2
    except subprocess_timeout() as e:       # pragma: no cover
        sys.stderr.write('TIMEOUT: %s\n' % e)
        return 2
    except Exception:
        traceback.print_exc()
        return 2


def subprocess_timeout():
    import subprocess
    return subprocess.TimeoutExpired


if __name__ == '__main__':
    sys.exit(main())
