"""The real thing end to end, in memory: a real `socketio.Client` against a real `socketio.Server`
(and `AsyncClient` against `AsyncServer`), each on its real engine.io core.

* server side: `world.ServerWorld` (real `engineio.socket.Socket` without an HTTP transport);
* client side: a subclass of the real `engineio.Client` / `AsyncClient` of which only
  `_connect_polling` (no HTTP: the tail of the real method) and `_send_packet` (hand the engine.io
  packet to the link) are replaced; injected through `_engineio_client_class()`;
* the link: what the client's engine.io sends is queued, passed through the *framing* and fed to
  `ServerWorld.recv`; what the server queues for its transport (`ServerWorld.sent`) is passed
  through the framing and raised as the client's engine.io `message` event, inline and in order.
  Framing `raw`: every engine.io packet is encoded and decoded on its own
  (`Packet.encode()` / `Packet(encoded_packet=…)`: text frames are `str`, binary frames `bytes`, as
  on a WebSocket).  Framing `b64`: the packets of a flush travel in `engineio.payload.Payload`s of
  at most 16 packets (`Payload.encode()` / `Payload(encoded_payload=…)`), so that binary
  attachments are base64 text with the `b` prefix, as on the polling transport.
* server `async_handlers=True`: the spawned handlers are queued by `ServerWorld` and run in spawn
  order either after every delivered frame (`settle='frame'`: the loop gets a turn between frames,
  as with WebSocket frames arriving apart) or after the whole flush (`settle='batch'`: several
  packets of one polling payload are processed without the loop getting a turn, the tasks start
  afterwards in creation order).
* the server's client manager (`manager=`): `default` (in memory), `pubsub` — the real `PubSubManager` /
  `AsyncPubSubManager` over the in-memory channel of world_pubsub (messages pickled, one host: its own messages
  come back to its listener) — or `pubsub2`: a second host `hA` on the channel on which the application issues
  emit/send/call while the client is connected to host `hB`.  No listener task exists: whenever the link is
  pumped every host that is behind the channel runs the real `_thread()` over what has been published so far
  (hB first, then hA); what a listener logs as an exception counts as an error of the burst.
* nothing runs concurrently: `pump()` moves the queued traffic until both directions are empty;
  `call()` has its wait scripted (threads: the event's `wait()` pumps the link; asyncio: the call
  is a task of the private loop, the link is pumped while it is suspended).  No wall-clock waits.
* asyncio only, `pump_concurrent()`: a burst is delivered the way the real engine.io cores do it.
  Towards the client every arrived packet goes through the real `engineio.AsyncClient._receive_packet`
  (one task per message, created in arrival order, none awaited); towards the server every packet is
  awaited through the real `AsyncSocket.receive` and, with `async_handlers=True`, socket.io's own
  `start_background_task` (`asyncio.ensure_future`) is in place, so the handler tasks exist side by
  side.  Between two packets the loop gets a scripted number of turns (0 = same polling payload).
  Then the loop is run to quiescence: every task created since the delivery began is done, no
  `call_soon` is outstanding and no job is waiting in the loop's default executor.  That executor is
  the harness's (`HarnessExecutor`): it never starts a thread; while a burst is delivered
  concurrently its jobs are parked and run, one at a time, only when the loop has nothing left to do
  (a pool thread that is slow to start: a legitimate schedule), otherwise they run at submission.
"""
import asyncio
import concurrent.futures

from . import common  # noqa: F401
from . import world as W

import engineio
from engineio import base_client as eio_base
from engineio import packet as eio_packet
from engineio import payload as eio_payload
import socketio

MESSAGE = eio_packet.MESSAGE


class _Task:
    def join(self, timeout=None):
        return None


class _ATask:
    def __await__(self):
        if False:
            yield
        return None

    def cancel(self):
        pass


class LinkEio(engineio.Client):
    link = None

    def _connect_polling(self, url, headers, engineio_path):
        self.sid = 'E2E'
        self.current_transport = 'polling'
        self.state = 'connected'
        eio_base.connected_clients.append(self)
        self._trigger_event('connect', run_async=False)
        self.write_loop_task = _Task()
        self.read_loop_task = _Task()

    def _send_packet(self, pkt):
        if self.state != 'connected':
            return
        self.link.c2s.append(pkt)


class AsyncLinkEio(engineio.AsyncClient):
    link = None

    async def _connect_polling(self, url, headers, engineio_path):
        self.sid = 'E2E'
        self.current_transport = 'polling'
        self.state = 'connected'
        eio_base.connected_clients.append(self)
        await self._trigger_event('connect', run_async=False)
        self.write_loop_task = _ATask()
        self.read_loop_task = _ATask()

    async def _send_packet(self, pkt):
        if self.state != 'connected':
            return
        self.link.c2s.append(pkt)


class _VClient(socketio.Client):
    def _engineio_client_class(self):
        return LinkEio


class _VAsyncClient(socketio.AsyncClient):
    def _engineio_client_class(self):
        return AsyncLinkEio


class HarnessExecutor(concurrent.futures.ThreadPoolExecutor):
    """The default executor of the private loop.  No thread is ever started: a submitted job either
    runs at once in the caller (`park` off) or is parked until `run_one()` (`park` on); every
    submission is counted, nothing is lost."""

    def __init__(self):
        super().__init__(max_workers=1)
        self.park = False
        self.parked = []
        self.submitted = 0

    def submit(self, fn, /, *args, **kwargs):
        fut = concurrent.futures.Future()
        self.submitted += 1
        if self.park:
            self.parked.append((fut, fn, args, kwargs))
        else:
            self._do(fut, fn, args, kwargs)
        return fut

    @staticmethod
    def _do(fut, fn, args, kwargs):
        if not fut.set_running_or_notify_cancel():
            return
        try:
            r = fn(*args, **kwargs)
        except BaseException as ex:   # noqa
            fut.set_exception(ex)
        else:
            fut.set_result(r)

    def run_one(self, last=False):
        self._do(*self.parked.pop(-1 if last else 0))


class ScriptedEvent:
    """threading.Event stand-in for `call()`: waiting = letting the link run."""

    def __init__(self, world):
        self.world = world
        self.flag = False

    def set(self):
        self.flag = True

    def clear(self):
        self.flag = False

    def is_set(self):
        return self.flag

    def wait(self, timeout=None):
        self.world.pump()
        return self.flag


class E2EWorld:
    TID = 'T0'

    MANAGERS = ('default', 'pubsub', 'pubsub2')

    def __init__(self, mode, serializer, framing, namespaces, rng, async_handlers=False, settle='frame',
                 manager='default'):
        if manager not in self.MANAGERS:
            raise common.Infra('unknown client manager kind %r' % (manager,))
        self.manager_kind = manager
        self.mode = mode
        self.is_async = mode == 'asyncio'
        self.serializer = serializer
        self.framing = framing
        self.settle_mode = settle           # background handlers joined after every frame | after the flush
        self.rng = rng
        self.namespaces = list(namespaces)
        self.c2s = []                       # engine.io packets the client handed to its transport
        self.wire = {'c2s': [], 's2c': []}  # MESSAGE payloads as delivered to the other end
        self.log = []                       # handler / callback invocations, both sides, in order
        self.rets = {'server': [], 'client': []}   # scripted handler results (FIFO per side)
        self.errors = []                    # exceptions contained by engine.io on either side
        self._pumping = False
        self.b64_packets = 0                # binary packets that travelled base64-framed
        # the server's client manager: the default in-memory one, or ('pubsub') the real PubSubManager /
        # AsyncPubSubManager over an in-memory channel (world_pubsub: `_publish` pickles onto a shared list,
        # `_listen` is a generator over this host's cursor), or ('pubsub2') the same with a second host on the
        # channel: the application's emit/send/call are issued on host hA, the client is connected to host hB
        self.chan = None
        self.hosts = []                     # (ServerWorld, manager) in the order their listeners are served
        self.listen_log = []                # what the listeners logged through server.logger
        self.listener_messages = 0          # channel entries consumed by the listeners
        self.issuer = None
        extra = {}
        mgr = None
        if manager != 'default':
            from . import world_pubsub as WP
            mcls = WP.manager_class(mode)
            self.chan = WP.Channel()
            mgr = mcls(self.chan, 'hB')
            extra = dict(logger=WP._Log(self.listen_log, 'hB'))
        self.sw = W.ServerWorld(mode, manager=mgr, serializer=serializer, async_handlers=async_handlers,
                                namespaces='*', **extra)
        self.loop = self.sw.loop
        if mgr is not None:
            self._adopt(self.sw, mgr)
        if manager == 'pubsub2':
            from . import world_pubsub as WP
            mgr_a = mcls(self.chan, 'hA')
            self.issuer = W.ServerWorld(mode, manager=mgr_a, serializer=serializer,
                                        async_handlers=async_handlers, namespaces='*',
                                        logger=WP._Log(self.listen_log, 'hA'))
            if self.is_async:
                self.issuer.loop.close()    # one loop for the whole world
                self.issuer.loop = self.loop
            self._adopt(self.issuer, mgr_a)
        self.api_sw = self.issuer or self.sw            # where the application calls emit/send/call
        # acknowledgement ids on the wire per emit-with-callback: a single pub/sub host numbers the
        # application's callback and then the relaying callback of the local delivery (the second one travels)
        self.ack_id_step = 2 if manager == 'pubsub' else 1
        self.executor = None
        if self.is_async:
            self.executor = HarnessExecutor()
            self.loop.set_default_executor(self.executor)
        self.nserial = 0
        self.ceio_log = W._Quiet()
        opts = dict(serializer=serializer, reconnection=False, handle_sigint=False,
                    engineio_logger=self.ceio_log)
        self.client = _VAsyncClient(**opts) if self.is_async else _VClient(**opts)
        self.ceio = self.client.eio
        self.ceio.link = self
        self._handlers = {}
        for side in ('server', 'client'):
            self._trap(side)
        self.sw.open(self.TID)
        r = self._run(self.client.connect, 'http://verif.invalid', namespaces=self.namespaces,
                      wait=False)
        if r[0] != 'ok':
            raise common.Infra('e2e connect failed: %r' % (r,))
        self.pump()
        if set(self.client.namespaces) != set(self.namespaces):
            raise common.Infra('e2e namespaces not connected: %r' % (self.client.namespaces,))
        self.sids = dict(self.client.namespaces)
        self.wire = {'c2s': [], 's2c': []}

    # ------------------------------------------------------------ pub/sub hosts
    def _adopt(self, sw, mgr):
        mgr.initialize()                    # what the first request would do
        sw.sio.manager_initialized = True
        sw.background.clear()               # the listener is never started as a task: `_listeners()` runs it
        self.hosts.append((sw, mgr))

    def _listeners(self):
        """Every host whose cursor is behind the channel runs the REAL `_thread()` over what has been published
        so far (the generator then returns, `_thread` logs that and ends).  -> did anything move?  A host's own
        messages come back to it as on a real queue."""
        moved = False
        for sw, mgr in self.hosts:
            n = len(self.chan.msgs)
            if mgr.cursor >= n:
                continue
            self.listener_messages += n - mgr.cursor
            mgr.limit = n
            before = len(self.listen_log)
            r = sw.run(mgr._thread)
            if r[0] != 'ok':
                self.errors.append(('listener', r[1]))
            for _h, level, _msg, cls in self.listen_log[before:]:
                if level == 'exception':
                    self.errors.append(('listener', cls))
            moved = True
        return moved

    # ------------------------------------------------------------ plumbing
    def _run(self, fn, *a, **k):
        try:
            r = fn(*a, **k)
            if asyncio.iscoroutine(r):
                r = self.loop.run_until_complete(r)
            return ('ok', r)
        except Exception as ex:   # noqa
            return ('exc', type(ex).__name__)

    def _transport(self, pkts):
        """engine.io packets through the framing -> payloads of the MESSAGE packets that arrive"""
        arrived = []
        if self.framing == 'b64':
            i = 0
            while i < len(pkts):
                n = self.rng.randint(1, 16)
                chunk = pkts[i:i + n]
                i += n
                text = eio_payload.Payload(packets=chunk).encode()
                self.b64_packets += sum(1 for x in text.split('\x1e') if x[:1] == 'b')
                arrived += eio_payload.Payload(encoded_payload=text).packets
        else:
            for p in pkts:
                arrived.append(eio_packet.Packet(encoded_packet=p.encode()))
        return [p.data for p in arrived if p.packet_type == MESSAGE]

    def pump(self):
        """Move queued traffic until both directions are empty (FIFO per direction)."""
        if self._pumping:
            raise common.Infra('re-entrant pump')
        self._pumping = True
        try:
            moved = True
            while moved:
                moved = self._listeners() if self.hosts else False
                if self.c2s:
                    batch, self.c2s = self.c2s, []
                    for data in self._transport(batch):
                        self.wire['c2s'].append(data)
                        r, contained = self.sw.recv(self.TID, data)
                        for _m, cls in contained:
                            self.errors.append(('server', cls))
                        if r[0] != 'ok':
                            self.errors.append(('server', r[1]))
                        if self.settle_mode == 'frame':
                            for e in self.sw.settle():
                                self.errors.append(('server-bg', e))
                    # 'batch': the frames of a flush arrive back to back, the loop (the thread
                    # scheduler) gets its turn afterwards: spawned handlers start in spawn order
                    for e in self.sw.settle():
                        self.errors.append(('server-bg', e))
                    moved = True
                out = [d for d in self.sw.sent(self.TID) if not isinstance(d, tuple)]
                if out:
                    for data in self._transport([eio_packet.Packet(MESSAGE, d) for d in out]):
                        self.wire['s2c'].append(data)
                        before = len(self.ceio_log.errors)
                        r = self._run(self.ceio._trigger_event, 'message', data, run_async=False)
                        for _m, cls in self.ceio_log.errors[before:]:
                            self.errors.append(('client', cls))
                        if r[0] != 'ok':
                            self.errors.append(('client', r[1]))
                    moved = True
        finally:
            self._pumping = False

    # ------------------------------------------------------------ concurrent delivery (asyncio)
    IDLE_TURNS = 24      # loop turns without any observable progress before the loop counts as idle
    MAX_TURNS = 20000

    def pump_concurrent(self, gaps, exec_lifo=False):
        """Deliver what the sender queued the way the real engine.io does (see the module text), run
        the loop to quiescence, then move the replies with `pump()`.  -> statistics of the delivery:
        tasks created, executor jobs submitted / run while parked, tasks that never finished."""
        if not self.is_async:
            raise common.Infra('concurrent delivery is an asyncio scenario')
        if self._pumping:
            raise common.Infra('re-entrant pump')
        self._pumping = True
        info = {'tasks': 0, 'executor_jobs': 0, 'parked_jobs_run': 0, 'stuck': [], 'frames': 0, 'turns': 0}
        try:
            if self.c2s:
                batch, self.c2s = self.c2s, []
                arrived = self._transport(batch)
                self.wire['c2s'] += arrived
                sock = self.sw.socks[self.TID]

                async def feed(data):
                    # engineio.AsyncServer: `await socket.receive(pkt)` for every packet of the
                    # POST payload / every WebSocket frame, one after the other
                    before = len(self.sw.eio_log.errors)
                    try:
                        await sock.receive(eio_packet.Packet(MESSAGE, data))
                    except Exception as ex:   # noqa
                        self.errors.append(('server', type(ex).__name__))
                    for _m, cls in self.sw.eio_log.errors[before:]:
                        self.errors.append(('server', cls))
                self._concurrently(feed, arrived, gaps, exec_lifo, info, server=True)
            else:
                if self.hosts:
                    self._listeners()       # what host hA published reaches the client's host first
                out = [d for d in self.sw.sent(self.TID) if not isinstance(d, tuple)]
                arrived = self._transport([eio_packet.Packet(MESSAGE, d) for d in out])
                self.wire['s2c'] += arrived

                async def feed(data):
                    # engineio.AsyncClient read loops: `await self._receive_packet(pkt)`, which
                    # starts the `message` handler as a task of its own and does not wait for it
                    before = len(self.ceio_log.errors)
                    try:
                        await self.ceio._receive_packet(eio_packet.Packet(MESSAGE, data))
                    except Exception as ex:   # noqa
                        self.errors.append(('client', type(ex).__name__))
                    for _m, cls in self.ceio_log.errors[before:]:
                        self.errors.append(('client', cls))
                self._concurrently(feed, arrived, gaps, exec_lifo, info, server=False)
        finally:
            self._pumping = False
        self.pump()
        return info

    def _concurrently(self, feed, arrived, gaps, exec_lifo, info, server):
        loop, ex = self.loop, self.executor
        created = []

        def factory(lp, coro, **kw):
            t = asyncio.Task(coro, loop=lp, **kw)
            created.append(t)
            return t

        state = {'fed': 0}

        def signature():
            return (state['fed'], len(created), sum(1 for t in created if t.done()), len(self.log), len(self.c2s),
                    self.sw.socks[self.TID].queue.qsize(), ex.submitted, len(ex.parked), len(self.errors))

        async def feeder():
            # the transport's reader: packets in arrival order; it waits for whatever the real receive
            # path waits for (the server awaits inline handlers, the client awaits nothing)
            for i, data in enumerate(arrived):
                await feed(data)
                state['fed'] += 1
                for _ in range(gaps[i % len(gaps)] if gaps else 0):
                    await asyncio.sleep(0)

        async def main():
            reader = asyncio.Task(feeder(), loop=loop)      # harness task: not through the factory
            idle, last = 0, None
            while True:
                info['turns'] += 1
                if info['turns'] > self.MAX_TURNS:
                    reader.cancel()
                    raise common.Infra('concurrent delivery does not come to rest')
                await asyncio.sleep(0)
                sig = signature()
                if sig != last:
                    idle, last = 0, sig
                    continue
                idle += 1
                if idle < self.IDLE_TURNS:
                    continue
                # the loop has nothing left to do: now (and only now) a pool thread gets to run
                if ex.parked:
                    ex.run_one(last=exec_lifo)
                    info['parked_jobs_run'] += 1
                    idle = 0
                    continue
                break
            if not reader.done():
                info['stuck'].append('transport reader blocked in receive() of packet %d' % state['fed'])
                reader.cancel()
                await asyncio.gather(reader, return_exceptions=True)
            elif reader.exception() is not None:
                raise reader.exception()

        saved_bg = None
        if server and self.sw.sio.async_handlers and 'start_background_task' in self.sw.sio.__dict__:
            # socket.io's own start_background_task (eio.start_background_task = ensure_future)
            saved_bg = self.sw.sio.__dict__.pop('start_background_task')
        submitted0 = ex.submitted
        ex.park = True
        old_factory = loop.get_task_factory()
        try:
            top = asyncio.Task(main(), loop=loop)       # not through the factory: not a library task
            loop.set_task_factory(factory)
            loop.run_until_complete(top)
        finally:
            loop.set_task_factory(old_factory)
            ex.park = False
            while ex.parked:                             # only after an Infra error
                ex.run_one()
            if saved_bg is not None:
                self.sw.sio.start_background_task = saved_bg
        stuck = [t for t in created if not t.done()]
        for t in stuck:
            info['stuck'].append(getattr(t.get_coro(), '__qualname__', repr(t.get_coro())))
            t.cancel()
        if stuck:
            loop.run_until_complete(asyncio.gather(*stuck, return_exceptions=True))
        for t in created:
            if t.done() and not t.cancelled() and t.exception() is not None:
                self.errors.append(('task', type(t.exception()).__name__))
        info['tasks'] += len(created)
        info['frames'] += len(arrived)
        info['executor_jobs'] += ex.submitted - submitted0

    def take_wire(self):
        w, self.wire = self.wire, {'c2s': [], 's2c': []}
        return w

    # ------------------------------------------------------------ application handlers
    def _trap(self, side):
        """catch-all of all namespaces: anything that reaches no registered handler"""
        world = self
        sio = self.sw.sio if side == 'server' else self.client

        def trap(*args):
            world.log.append(['stray', side, list(args)])
        sio.on('*', trap, namespace='*')

    def handler(self, side, ns, ev, coro=False):
        """Make sure `side` has a handler for `ev` on `ns`; it records its arguments and returns
        the next scripted result."""
        key = (side, ns, ev)
        if key in self._handlers:
            return self._handlers[key]
        kind = 'coro' if coro and self.is_async else 'plain'
        self._handlers[key] = kind
        world = self

        def enter(args):
            # handler entry: the invocation is recorded (and the scripted result taken) *here*, so the
            # log says in which order the handlers STARTED; ['done', side, serial] follows when the
            # handler returns
            if side == 'server':
                sid, args = args[0] if args else None, args[1:]
                if sid != world.sids.get(ns):
                    world.log.append(['wrong-sid', side, ns, ev, sid])
            world.nserial += 1
            serial = world.nserial
            world.log.append(['h', side, ns, ev, list(args), serial])
            q = world.rets[side]
            return serial, (q.pop(0) if q else None)

        if kind == 'coro':
            async def f(*args):
                serial, ret = enter(args)
                await asyncio.sleep(0)
                world.log.append(['done', side, serial])
                return ret
        else:
            def f(*args):
                serial, ret = enter(args)
                world.log.append(['done', side, serial])
                return ret
        sio = self.sw.sio if side == 'server' else self.client
        sio.on(ev, f, namespace=ns)
        return kind

    def callback(self, side, tok, coro=False):
        world = self
        if coro and self.is_async:
            async def cb(*args):
                world.log.append(['cb', side, tok, list(args)])
        else:
            def cb(*args):
                world.log.append(['cb', side, tok, list(args)])
        return cb

    # ------------------------------------------------------------ the API under test
    def emit(self, side, ev, data, ns, cb=None, use_send=False):
        """emit()/send() by `side` ('client' -> server handlers, 'server' -> client handlers)."""
        if side == 'client':
            if use_send:
                return self._run(self.client.send, data, namespace=ns, callback=cb)
            return self._run(self.client.emit, ev, data, namespace=ns, callback=cb)
        sid = self.sids[ns]
        if use_send:
            return self._run(self.api_sw.sio.send, data, to=sid, namespace=ns, callback=cb)
        return self._run(self.api_sw.sio.emit, ev, data, to=sid, namespace=ns, callback=cb)

    def call(self, side, ev, data, ns):
        """call() by `side`; -> ('ok', value) | ('exc', class) | ('timeout',)"""
        if side == 'client':
            fn, kw, eio = self.client.call, dict(namespace=ns), self.ceio
        else:
            fn, kw, eio = self.api_sw.sio.call, dict(to=self.sids[ns], namespace=ns), self.api_sw.eio
        if not self.is_async:
            orig = eio.create_event
            eio.create_event = lambda *a, **k: ScriptedEvent(self)
            try:
                return self._run(fn, ev, data, timeout=0, **kw)
            finally:
                eio.create_event = orig
        loop = self.loop
        task = loop.create_task(fn(ev, data, timeout=3600, **kw))

        def spin():
            for _ in range(30):
                if task.done():
                    break
                loop.run_until_complete(asyncio.sleep(0))
        spin()
        self.pump()
        spin()
        if not task.done():
            task.cancel()
            try:
                loop.run_until_complete(task)
            except BaseException:   # noqa
                pass
            return ('timeout',)
        try:
            return ('ok', task.result())
        except Exception as ex:    # noqa
            return ('exc', type(ex).__name__)

    def close(self):
        try:
            eio_base.connected_clients.remove(self.ceio)
        except ValueError:
            pass
        if self.issuer is not None and not self.is_async:
            self.issuer.close()             # (asyncio: the loop is the client host's, closed below)
        self.sw.close()
