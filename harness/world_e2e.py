"""The real thing end to end, in memory: a real `socketio.Client` against a real `socketio.Server`
(and `AsyncClient` against `AsyncServer`), each on its real engine.io core.

* server side: `world.ServerWorld` (real `engineio.socket.Socket` without an HTTP transport);
* client side: a subclass of the real `engineio.Client` / `AsyncClient` of which only
  `_connect_polling` (no HTTP: the tail of the real method) and `_send_packet` (hand the engine.io
  packet to the link) are replaced; injected through `_engineio_client_class()`;
* the link: what the client's engine.io sends is queued, passed through the *framing* and fed to
  `ServerWorld.recv`; what the server queues for its transport (`ServerWorld.sent`) is passed
  through the framing and raised as the client's engine.io `message` event, inline and in order.
  Framing `raw`: every engine.io packet is encoded and decoded on its own
  (`Packet.encode()` / `Packet(encoded_packet=…)`: text frames are `str`, binary frames `bytes`, as
  on a WebSocket).  Framing `b64`: the packets of a flush travel in `engineio.payload.Payload`s of
  at most 16 packets (`Payload.encode()` / `Payload(encoded_payload=…)`), so that binary
  attachments are base64 text with the `b` prefix, as on the polling transport.
* server `async_handlers=True`: the spawned handlers are queued by `ServerWorld` and run in spawn
  order either after every delivered frame (`settle='frame'`: the loop gets a turn between frames,
  as with WebSocket frames arriving apart) or after the whole flush (`settle='batch'`: several
  packets of one polling payload are processed without the loop getting a turn, the tasks start
  afterwards in creation order).
* nothing runs concurrently: `pump()` moves the queued traffic until both directions are empty;
  `call()` has its wait scripted (threads: the event's `wait()` pumps the link; asyncio: the call
  is a task of the private loop, the link is pumped while it is suspended).  No wall-clock waits.
"""
import asyncio

from . import common  # noqa: F401
from . import world as W

import engineio
from engineio import base_client as eio_base
from engineio import packet as eio_packet
from engineio import payload as eio_payload
import socketio

MESSAGE = eio_packet.MESSAGE


class _Task:
    def join(self, timeout=None):
        return None


class _ATask:
    def __await__(self):
        if False:
            yield
        return None

    def cancel(self):
        pass


class LinkEio(engineio.Client):
    link = None

    def _connect_polling(self, url, headers, engineio_path):
        self.sid = 'E2E'
        self.current_transport = 'polling'
        self.state = 'connected'
        eio_base.connected_clients.append(self)
        self._trigger_event('connect', run_async=False)
        self.write_loop_task = _Task()
        self.read_loop_task = _Task()

    def _send_packet(self, pkt):
        if self.state != 'connected':
            return
        self.link.c2s.append(pkt)


class AsyncLinkEio(engineio.AsyncClient):
    link = None

    async def _connect_polling(self, url, headers, engineio_path):
        self.sid = 'E2E'
        self.current_transport = 'polling'
        self.state = 'connected'
        eio_base.connected_clients.append(self)
        await self._trigger_event('connect', run_async=False)
        self.write_loop_task = _ATask()
        self.read_loop_task = _ATask()

    async def _send_packet(self, pkt):
        if self.state != 'connected':
            return
        self.link.c2s.append(pkt)


class _VClient(socketio.Client):
    def _engineio_client_class(self):
        return LinkEio


class _VAsyncClient(socketio.AsyncClient):
    def _engineio_client_class(self):
        return AsyncLinkEio


class ScriptedEvent:
    """threading.Event stand-in for `call()`: waiting = letting the link run."""

    def __init__(self, world):
        self.world = world
        self.flag = False

    def set(self):
        self.flag = True

    def clear(self):
        self.flag = False

    def is_set(self):
        return self.flag

    def wait(self, timeout=None):
        self.world.pump()
        return self.flag


class E2EWorld:
    TID = 'T0'

    def __init__(self, mode, serializer, framing, namespaces, rng, async_handlers=False, settle='frame'):
        self.mode = mode
        self.is_async = mode == 'asyncio'
        self.serializer = serializer
        self.framing = framing
        self.settle_mode = settle           # background handlers joined after every frame | after the flush
        self.rng = rng
        self.namespaces = list(namespaces)
        self.c2s = []                       # engine.io packets the client handed to its transport
        self.wire = {'c2s': [], 's2c': []}  # MESSAGE payloads as delivered to the other end
        self.log = []                       # handler / callback invocations, both sides, in order
        self.rets = {'server': [], 'client': []}   # scripted handler results (FIFO per side)
        self.errors = []                    # exceptions contained by engine.io on either side
        self._pumping = False
        self.b64_packets = 0                # binary packets that travelled base64-framed
        self.sw = W.ServerWorld(mode, serializer=serializer, async_handlers=async_handlers,
                                namespaces='*')
        self.loop = self.sw.loop
        self.ceio_log = W._Quiet()
        opts = dict(serializer=serializer, reconnection=False, handle_sigint=False,
                    engineio_logger=self.ceio_log)
        self.client = _VAsyncClient(**opts) if self.is_async else _VClient(**opts)
        self.ceio = self.client.eio
        self.ceio.link = self
        self._handlers = set()
        for side in ('server', 'client'):
            self._trap(side)
        self.sw.open(self.TID)
        r = self._run(self.client.connect, 'http://verif.invalid', namespaces=self.namespaces,
                      wait=False)
        if r[0] != 'ok':
            raise common.Infra('e2e connect failed: %r' % (r,))
        self.pump()
        if set(self.client.namespaces) != set(self.namespaces):
            raise common.Infra('e2e namespaces not connected: %r' % (self.client.namespaces,))
        self.sids = dict(self.client.namespaces)
        self.wire = {'c2s': [], 's2c': []}

    # ------------------------------------------------------------ plumbing
    def _run(self, fn, *a, **k):
        try:
            r = fn(*a, **k)
            if asyncio.iscoroutine(r):
                r = self.loop.run_until_complete(r)
            return ('ok', r)
        except Exception as ex:   # noqa
            return ('exc', type(ex).__name__)

    def _transport(self, pkts):
        """engine.io packets through the framing -> payloads of the MESSAGE packets that arrive"""
        arrived = []
        if self.framing == 'b64':
            i = 0
            while i < len(pkts):
                n = self.rng.randint(1, 16)
                chunk = pkts[i:i + n]
                i += n
                text = eio_payload.Payload(packets=chunk).encode()
                self.b64_packets += sum(1 for x in text.split('\x1e') if x[:1] == 'b')
                arrived += eio_payload.Payload(encoded_payload=text).packets
        else:
            for p in pkts:
                arrived.append(eio_packet.Packet(encoded_packet=p.encode()))
        return [p.data for p in arrived if p.packet_type == MESSAGE]

    def pump(self):
        """Move queued traffic until both directions are empty (FIFO per direction)."""
        if self._pumping:
            raise common.Infra('re-entrant pump')
        self._pumping = True
        try:
            moved = True
            while moved:
                moved = False
                if self.c2s:
                    batch, self.c2s = self.c2s, []
                    for data in self._transport(batch):
                        self.wire['c2s'].append(data)
                        r, contained = self.sw.recv(self.TID, data)
                        for _m, cls in contained:
                            self.errors.append(('server', cls))
                        if r[0] != 'ok':
                            self.errors.append(('server', r[1]))
                        if self.settle_mode == 'frame':
                            for e in self.sw.settle():
                                self.errors.append(('server-bg', e))
                    # 'batch': the frames of a flush arrive back to back, the loop (the thread
                    # scheduler) gets its turn afterwards: spawned handlers start in spawn order
                    for e in self.sw.settle():
                        self.errors.append(('server-bg', e))
                    moved = True
                out = [d for d in self.sw.sent(self.TID) if not isinstance(d, tuple)]
                if out:
                    for data in self._transport([eio_packet.Packet(MESSAGE, d) for d in out]):
                        self.wire['s2c'].append(data)
                        before = len(self.ceio_log.errors)
                        r = self._run(self.ceio._trigger_event, 'message', data, run_async=False)
                        for _m, cls in self.ceio_log.errors[before:]:
                            self.errors.append(('client', cls))
                        if r[0] != 'ok':
                            self.errors.append(('client', r[1]))
                    moved = True
        finally:
            self._pumping = False

    def take_wire(self):
        w, self.wire = self.wire, {'c2s': [], 's2c': []}
        return w

    # ------------------------------------------------------------ application handlers
    def _trap(self, side):
        """catch-all of all namespaces: anything that reaches no registered handler"""
        world = self
        sio = self.sw.sio if side == 'server' else self.client

        def trap(*args):
            world.log.append(['stray', side, list(args)])
        sio.on('*', trap, namespace='*')

    def handler(self, side, ns, ev, coro=False):
        """Make sure `side` has a handler for `ev` on `ns`; it records its arguments and returns
        the next scripted result."""
        key = (side, ns, ev)
        if key in self._handlers:
            return
        self._handlers.add(key)
        world = self

        def body(args):
            if side == 'server':
                sid, args = args[0] if args else None, args[1:]
                if sid != world.sids.get(ns):
                    world.log.append(['wrong-sid', side, ns, ev, sid])
            world.log.append(['h', side, ns, ev, list(args)])
            q = world.rets[side]
            return q.pop(0) if q else None

        if coro and self.is_async:
            async def f(*args):
                await asyncio.sleep(0)
                return body(args)
        else:
            def f(*args):
                return body(args)
        sio = self.sw.sio if side == 'server' else self.client
        sio.on(ev, f, namespace=ns)

    def callback(self, side, tok, coro=False):
        world = self
        if coro and self.is_async:
            async def cb(*args):
                world.log.append(['cb', side, tok, list(args)])
        else:
            def cb(*args):
                world.log.append(['cb', side, tok, list(args)])
        return cb

    # ------------------------------------------------------------ the API under test
    def emit(self, side, ev, data, ns, cb=None, use_send=False):
        """emit()/send() by `side` ('client' -> server handlers, 'server' -> client handlers)."""
        if side == 'client':
            if use_send:
                return self._run(self.client.send, data, namespace=ns, callback=cb)
            return self._run(self.client.emit, ev, data, namespace=ns, callback=cb)
        sid = self.sids[ns]
        if use_send:
            return self._run(self.sw.sio.send, data, to=sid, namespace=ns, callback=cb)
        return self._run(self.sw.sio.emit, ev, data, to=sid, namespace=ns, callback=cb)

    def call(self, side, ev, data, ns):
        """call() by `side`; -> ('ok', value) | ('exc', class) | ('timeout',)"""
        if side == 'client':
            fn, kw, eio = self.client.call, dict(namespace=ns), self.ceio
        else:
            fn, kw, eio = self.sw.sio.call, dict(to=self.sids[ns], namespace=ns), self.sw.eio
        if not self.is_async:
            orig = eio.create_event
            eio.create_event = lambda *a, **k: ScriptedEvent(self)
            try:
                return self._run(fn, ev, data, timeout=0, **kw)
            finally:
                eio.create_event = orig
        loop = self.loop
        task = loop.create_task(fn(ev, data, timeout=3600, **kw))

        def spin():
            for _ in range(30):
                if task.done():
                    break
                loop.run_until_complete(asyncio.sleep(0))
        spin()
        self.pump()
        spin()
        if not task.done():
            task.cancel()
            try:
                loop.run_until_complete(task)
            except BaseException:   # noqa
                pass
            return ('timeout',)
        try:
            return ('ok', task.result())
        except Exception as ex:    # noqa
            return ('exc', type(ex).__name__)

    def close(self):
        try:
            eio_base.connected_clients.remove(self.ceio)
        except ValueError:
            pass
        self.sw.close()
