"""Real socketio clients over their real engine.io client, with a scripted in-memory transport.

No mocks: `socketio.Client` / `socketio.AsyncClient` own a subclass of the real
`engineio.Client` / `engineio.AsyncClient` (injected through the documented hook
`_engineio_client_class()`), of which only the two methods that touch the network are replaced:

* `_connect_polling`  — no HTTP; the scripted outcome either raises
  `engineio.exceptions.ConnectionError` exactly like a refused handshake, or performs the tail of
  the real method (state, `connected_clients`, `connect` event, task placeholders);
* `_send_packet`      — keeps engine.io's own guard (`state != 'connected'` drops the packet),
  records what is handed to the transport and, for the packets an API call sends itself, plays the
  scripted *reactions* of the peer (server frames, transport loss) right there — i.e. inside
  `eio.connect()` / `eio.send()`, which is where a concurrent read loop would deliver them.

`disconnect()`, `_trigger_event()`, `_receive_packet()`, `_reset()` and the `state` transitions are
engine.io's.  Messages go up inline and in order (`_trigger_event('message', data,
run_async=False)`); loss of the transport is the tail of engine.io's read loop.

asyncio: one private event loop with a *virtual* clock; every call is run to completion on it,
timeouts elapse without waiting.
"""
import asyncio
import contextvars
import logging
import sys

from . import common  # noqa: F401  (puts /repo/src on sys.path)
from . import world as _w  # noqa: F401  (logging configuration, _Quiet)

import engineio
from engineio import base_client as eio_base
from engineio import packet as eio_packet
import socketio

logging.getLogger('socketio.client').setLevel(logging.CRITICAL)
logging.getLogger('engineio.client').setLevel(logging.CRITICAL)

TRANSPORT_ERROR = engineio.Client.reason.TRANSPORT_ERROR
SERVER_DISCONNECT = engineio.Client.reason.SERVER_DISCONNECT
CLIENT_DISCONNECT = engineio.Client.reason.CLIENT_DISCONNECT


_cur_ev = contextvars.ContextVar('verif_cur_ev', default=None)


class CallbackError(RuntimeError):
    """what a scripted application callback raises after it has recorded itself"""


class Stuck(RuntimeError):
    """The private loop has nothing left to run and no timer to advance to."""


class VirtualLoop(asyncio.SelectorEventLoop):
    """Event loop whose clock jumps to the next timer whenever nothing is ready."""

    def __init__(self):
        super().__init__()
        self._vt = 0.0

    def time(self):
        return self._vt

    def _run_once(self):
        if not self._ready:
            if self._scheduled:
                when = self._scheduled[0]._when
                if when > self._vt:
                    self._vt = when
            elif not self._stopping:
                raise Stuck('event loop is idle with no timers')
        super()._run_once()

    def quiesce(self):
        """Run until every task is finished or parked on a future nobody has resolved yet."""
        while True:
            self.call_soon(self.stop)
            self.run_forever()
            if not self._ready:
                break


class _Task:
    def join(self, timeout=None):
        return None


class _ATask:
    """Awaitable placeholder for engine.io's read/write loop tasks."""

    def __await__(self):
        if False:
            yield
        return None

    def cancel(self):
        pass


def _complete(state, data):
    """Bookkeeping of outgoing socket.io packets: -> True when `data` ends a packet."""
    if state['owed'] > 0:
        state['owed'] -= 1
        return state['owed'] == 0
    if isinstance(data, str) and data[:1] in ('5', '6'):
        i = 1
        while i < len(data) and data[i].isdigit():
            i += 1
        if i > 1 and data[i:i + 1] == '-':
            state['owed'] = int(data[1:i])
            return state['owed'] == 0
    return True


class LoopEio(engineio.Client):
    world = None

    def _connect_polling(self, url, headers, engineio_path):
        w = self.world
        outcome = w.outcome
        if outcome[0] == 'refuse':
            self._reset()
            raise engineio.exceptions.ConnectionError(*outcome[1])
        self.sid = outcome[1]
        self.current_transport = 'polling'
        self.state = 'connected'
        eio_base.connected_clients.append(self)
        # the scripted answers of the peer are played inside this call (see the module docstring); in reality
        # they arrive through the read loop, i.e. when the loop tasks exist: a handler that runs because of
        # them may call disconnect(), which joins the read loop
        self.write_loop_task = _Task()
        self.read_loop_task = _Task()
        try:
            self._trigger_event('connect', run_async=False, reraise=True)
        except Exception as exc:
            eio_base.connected_clients.remove(self)
            self._reset()
            raise engineio.exceptions.ConnectionError(
                'Connect handler failed: ' + str(exc))
        finally:
            w.script = None
        self.write_loop_task = _Task()
        self.read_loop_task = _Task()

    def _send_packet(self, pkt):
        if self.state != 'connected':
            return
        w = self.world
        if pkt.packet_type == eio_packet.MESSAGE:
            w._rec(['send', pkt.data])
            if _complete(w.out_state, pkt.data):
                w.react()
        elif pkt.packet_type == eio_packet.CLOSE:
            w._rec(['close'])
        else:
            w._rec(['eio', pkt.packet_type])


class AsyncLoopEio(engineio.AsyncClient):
    world = None

    async def _connect_polling(self, url, headers, engineio_path):
        w = self.world
        outcome = w.outcome
        if outcome[0] == 'refuse':
            await self._reset()
            raise engineio.exceptions.ConnectionError(*outcome[1])
        self.sid = outcome[1]
        self.current_transport = 'polling'
        self.state = 'connected'
        eio_base.connected_clients.append(self)
        self.write_loop_task = _ATask()
        self.read_loop_task = _ATask()
        try:
            await self._trigger_event('connect', run_async=False)
        except Exception as exc:
            eio_base.connected_clients.remove(self)
            await self._reset()
            raise engineio.exceptions.ConnectionError(
                'Connect handler failed: ' + str(exc))
        finally:
            w.script = None
        self.write_loop_task = _ATask()
        self.read_loop_task = _ATask()

    async def _send_packet(self, pkt):
        if self.state != 'connected':
            return
        w = self.world
        if pkt.packet_type == eio_packet.MESSAGE:
            w._rec(['send', pkt.data])
            if _complete(w.out_state, pkt.data):
                await w.areact()
        elif pkt.packet_type == eio_packet.CLOSE:
            w._rec(['close'])
        else:
            w._rec(['eio', pkt.packet_type])


def _mk_client_classes():
    class VClient(socketio.Client):
        def _engineio_client_class(self):
            return LoopEio

    class VAsyncClient(socketio.AsyncClient):
        def _engineio_client_class(self):
            return AsyncLoopEio

    return VClient, VAsyncClient


def ret_value(spec, args):
    """Scripted handler result: ('none',) | ('one', v) | ('tuple', [..]) | ('echo',)"""
    k = spec[0]
    if k == 'none':
        return None
    if k == 'one':
        return spec[1]
    if k == 'tuple':
        return tuple(spec[1])
    if k == 'echo':
        return tuple(args)
    raise ValueError(spec)


class _Log(_w._Quiet):
    """engine.io logs `exception()` for the handler errors it contains: recorded where they happen"""
    world = None

    def exception(self, msg, *a, **k):
        self.errors.append((msg, type(sys.exc_info()[1]).__name__))
        self.world._rec(['contained', type(sys.exc_info()[1]).__name__])


class ClientWorld:
    """registry: dict(
         fns=[dict(ns=, ev=, coro=bool, legacy=bool, ret=spec)],      function handlers (sio.on)
         classes=[dict(ns=, methods=[dict(ev=, coro=, legacy=, ret=)])])   class-based namespaces
    """

    def __init__(self, mode='threading', registry=None, **opts):
        self.mode = mode
        self.is_async = mode == 'asyncio'
        self.trace = []
        self.script = None            # reaction lists of the API call in progress
        self.depth = 0                # > 0 while a reaction is being played
        self.out_state = {'owed': 0}
        self.outcome = ('accept', 'E0')
        self.eio_log = _Log()
        self.eio_log.world = self
        self.tagged = None            # during a concurrent burst: [(message index, entry)]
        self.pending = []             # futures the suspended handlers of a burst wait on
        self.seq = 0
        self.reenter = None           # frame to deliver again from inside the next callback that runs
        self.reentered = False
        self.n_suspended = 0          # handlers / callbacks that were really suspended inside a burst
        self.act_used = {}            # active handlers: API calls made so far, per handler
        VClient, VAsyncClient = _mk_client_classes()
        opts.setdefault('reconnection', False)
        opts.setdefault('handle_sigint', False)
        opts['engineio_logger'] = self.eio_log
        if self.is_async:
            self.loop = VirtualLoop()
            asyncio.set_event_loop(None)
            self.sio = VAsyncClient(**opts)
        else:
            self.loop = None
            self.sio = VClient(**opts)
        self.eio = self.sio.eio
        self.eio.world = self
        # a reconnection effort is STARTED BUT HELD: `_handle_reconnect` is queued and never run, so
        # the window between the loss and the first attempt stays observable (the effort is C10's)
        self.held = []
        world = self

        def hold(target, *a, **k):
            world.held.append(getattr(target, '__name__', repr(target)))
            world._rec(['effort'])
            return _ATask() if world.is_async else _Task()
        self.sio.start_background_task = hold
        self.registry = registry or {'fns': [], 'classes': []}
        self._install(self.registry)

    def _rec(self, entry):
        tag = _cur_ev.get()
        if self.tagged is not None and tag is not None:
            self.seq += 1
            self.tagged.append((tag, self.seq, entry))
        else:
            self.trace.append(entry)

    async def _pause(self, susp):
        """what a coroutine handler awaits: inside a burst a harness-owned future (the handler is
        really suspended until the harness releases it), otherwise one trip through the loop"""
        if self.tagged is not None and susp:
            fut = self.loop.create_future()
            self.pending.append(fut)
            self.n_suspended += 1
            await fut
        else:
            await asyncio.sleep(0)

    # ------------------------------------------------------------ application handlers
    def _record(self, kind, nskey, evkey, args):
        self._rec(['invoke', kind, nskey, evkey, list(args)])

    # ---- active handlers (C14 parity): a handler that looks at the client and uses its API from INSIDE
    # act = dict(api=None|'emit'|'send'|'disconnect', target='own'|<namespace>, reraise=bool, max=int)
    def _act_observe(self, act, ns):
        s = self.sio
        tgt = ns if act['target'] == 'own' else act['target']
        self._rec(['act.sees', bool(s.connected), sorted([k, v] for k, v in s.namespaces.items()),
                   tgt, s.get_sid(tgt), ns, s.get_sid(ns), s.sid])
        return tgt

    def _act_budget(self, act, key):
        if act.get('api') is None:
            return False
        n = self.act_used.get(key, 0)
        if n >= act.get('max', 2):
            return False
        self.act_used[key] = n + 1
        return True

    def _act_call(self, act, ns, tgt, obj):
        """the scripted API call; class-based handlers go through their namespace object's helpers"""
        api = act['api']
        via = obj if obj is not None else self.sio
        nsarg = tgt if (obj is None or tgt != ns) else None       # a namespace object defaults to its own
        if api == 'emit':
            return via.emit('from handler', {'in': ns}, namespace=nsarg)
        if api == 'send':
            return via.send('from handler ' + ns, namespace=nsarg)
        if api == 'disconnect':
            return via.disconnect()
        raise ValueError(act)

    def _act_sync(self, act, key, ns, obj):
        tgt = self._act_observe(act, ns)
        if self.is_async or not self._act_budget(act, key):
            return                      # a plain function on the asyncio client cannot await the API
        try:
            r = self._act_call(act, ns, tgt, obj)
            self._rec(['act.api', act['api'], tgt, 'ret', repr(r)])
        except Exception as ex:   # noqa
            self._rec(['act.api', act['api'], tgt, 'exc', type(ex).__name__])
            if act.get('reraise'):
                raise
        self._act_observe(act, ns)

    async def _act_async(self, act, key, ns, obj):
        tgt = self._act_observe(act, ns)
        if not self._act_budget(act, key):
            return
        try:
            r = await self._act_call(act, ns, tgt, obj)
            self._rec(['act.api', act['api'], tgt, 'ret', repr(r)])
        except Exception as ex:   # noqa
            self._rec(['act.api', act['api'], tgt, 'exc', type(ex).__name__])
            if act.get('reraise'):
                raise
        self._act_observe(act, ns)

    def _mk_active(self, kind, nskey, h, obj):
        ev, ret, act = h['ev'], h['ret'], h['act']
        world = self
        key = (kind, nskey, ev)
        if self.is_async and (h.get('coro', False) or act.get('api') is not None):
            async def f(*args):
                world._record(kind, nskey, ev, args)
                await world._act_async(act, key, nskey, obj)
                return ret_value(ret, args)
        else:
            def f(*args):
                world._record(kind, nskey, ev, args)
                world._act_sync(act, key, nskey, obj)
                return ret_value(ret, args)
        return f

    def _mk_handler(self, kind, nskey, h, bound=False, obj=None):
        """A handler with the real arity: legacy disconnect handlers do not take the reason."""
        if h.get('act') is not None:
            return self._mk_active(kind, nskey, h, obj)
        ev, ret, coro, legacy = h['ev'], h['ret'], h.get('coro', False), h.get('legacy', False)
        world = self

        def body(args):
            world._record(kind, nskey, ev, args)
            return ret_value(ret, args)

        if legacy and ev == 'disconnect':
            # positional parameters *before* the reason: the namespace for catch-all slots
            n = 1 if nskey == '*' else 0
            if coro and self.is_async:
                if n == 0:
                    async def f():
                        await asyncio.sleep(0)
                        return body(())
                else:
                    async def f(a):
                        await asyncio.sleep(0)
                        return body((a,))
            else:
                if n == 0:
                    def f():
                        return body(())
                else:
                    def f(a):
                        return body((a,))
        elif coro and self.is_async:
            susp = h.get('susp', False)

            async def f(*args):
                r = body(args)              # recorded when the handler STARTS
                await world._pause(susp)    # ... then it really gives up control
                return r
        else:
            def f(*args):
                return body(args)
        return f

    def _install(self, reg):
        for h in reg.get('fns', []):
            self.sio.on(h['ev'], self._mk_handler('fn', h['ns'], h), namespace=h['ns'])
        for c in reg.get('classes', []):
            base = socketio.AsyncClientNamespace if self.is_async else socketio.ClientNamespace
            obj = type('VNamespace', (base,), {})(c['ns'])
            for m in c['methods']:
                f = self._mk_handler('cls', c['ns'], m, obj=obj)
                setattr(obj, 'on_' + m['ev'], f)
            self.sio.register_namespace(obj)

    def callback(self, tok, coro=False, susp=False, raises=False):
        world = self
        if coro and self.is_async:
            async def cb(*args):
                world._rec(['cb', tok, list(args)])
                await world._pause(susp)
                if raises:
                    raise CallbackError(tok)
        else:
            def cb(*args):
                world._rec(['cb', tok, list(args)])
                fr = world.reenter
                if fr is not None and not world.is_async:
                    # re-entrant delivery: the same frame arrives again while this callback runs
                    world.reenter = None
                    world.reentered = True
                    if world.eio.state == 'connected':
                        world.eio._trigger_event('message', fr, run_async=False)
                if raises:
                    raise CallbackError(tok)
        return cb

    def auth(self, value, callable_=False, coro=False):
        if not callable_:
            return value
        world = self
        if coro and self.is_async:
            async def a():
                await asyncio.sleep(0)
                world._rec(['auth'])
                return value
        else:
            def a():
                world._rec(['auth'])
                return value
        return a

    # ------------------------------------------------------------ the peer
    def _reaction(self):
        if self.script is None or self.depth > 0:
            return []
        if not self.script:
            return []
        return self.script.pop(0)

    def react(self):
        for r in self._reaction():
            self.depth += 1
            try:
                self._play(r)
            finally:
                self.depth -= 1

    async def areact(self):
        for r in self._reaction():
            self.depth += 1
            try:
                await self._aplay(r)
            finally:
                self.depth -= 1

    def _contained(self, before):
        self._rec(['<'])          # ... and ends here (contained errors are recorded by the logger)

    def _play(self, r):
        eio = self.eio
        before = len(self.eio_log.errors)
        self._rec(['>'])          # harness-side marker: one transport event starts here
        if r[0] == 'frame':
            if eio.state == 'connected':          # a dead transport delivers nothing
                eio._trigger_event('message', r[1], run_async=False)
        elif r[0] == 'lost':
            # tail of engine.io's read loop
            if eio.state == 'connected':
                eio._trigger_event('disconnect', TRANSPORT_ERROR, run_async=False)
                try:
                    eio_base.connected_clients.remove(eio)
                except ValueError:
                    pass
                eio._reset()
        elif r[0] == 'close':
            # engine.io CLOSE packet from the server
            if eio.state == 'connected':
                eio._receive_packet(eio_packet.Packet(eio_packet.CLOSE))
        else:
            raise ValueError(r)
        self._contained(before)

    async def _aplay(self, r):
        eio = self.eio
        before = len(self.eio_log.errors)
        self._rec(['>'])
        if r[0] == 'frame':
            if eio.state == 'connected':
                await eio._trigger_event('message', r[1], run_async=False)
        elif r[0] == 'lost':
            if eio.state == 'connected':
                await eio._trigger_event('disconnect', TRANSPORT_ERROR, run_async=False)
                try:
                    eio_base.connected_clients.remove(eio)
                except ValueError:
                    pass
                await eio._reset()
        elif r[0] == 'close':
            if eio.state == 'connected':
                await eio._receive_packet(eio_packet.Packet(eio_packet.CLOSE))
        else:
            raise ValueError(r)
        self._contained(before)

    # ------------------------------------------------------------ running things
    def _run(self, fn, *a, **k):
        """-> ['ret', value] | ['exc', class name]"""
        try:
            r = fn(*a, **k)
            if asyncio.iscoroutine(r):
                r = self.loop.run_until_complete(r)
            return ['ret', r]
        except Stuck:
            raise
        except Exception as ex:   # noqa
            return ['exc', type(ex).__name__]
        finally:
            self.script = None

    def take(self):
        t, self.trace = self.trace, []
        return t

    def event(self, r):
        """A transport event outside any API call: ('frame', data) | ('lost',) | ('close',)."""
        self.script = None
        if self.is_async:
            self.loop.run_until_complete(self._aplay(r))
        else:
            self._play(r)

    def reentrant(self, e):
        """An ACK frame and its duplicate.  Threaded client: the duplicate is delivered from INSIDE the
        first callback the frame causes (if it causes none: right after it); asyncio: one after the
        other.  -> [(trace, snapshot)] * 2"""
        self.script = None
        self.reentered = False
        self.reenter = e[1] if not self.is_async else None
        self.event(e)
        t1, s1 = self.take(), self.snapshot()
        if self.reentered:
            self.reenter = None
            return [(t1, s1), ([['>'], ['<']], self.snapshot())]
        self.reenter = None
        self.event(e)
        return [(t1, s1), (self.take(), self.snapshot())]

    def burst(self, events):
        """Several engine.io messages the way engine.io's asyncio client dispatches them: one task per
        message, the next one delivered while the handlers of the previous ones are suspended; then the
        suspended handlers are released in order.  -> [(trace of that message, snapshot after its
        delivery)], the last snapshot taken when everything has finished.  (Threaded client: one after
        the other.)"""
        self.script = None
        out = []
        if not self.is_async:
            for e in events:
                self._play(e)
                out.append((self.take(), self.snapshot()))
            return out
        self.tagged = []
        self.pending = []
        snaps = []
        tasks = []
        try:
            for i, e in enumerate(events):
                async def run(i=i, e=e):
                    _cur_ev.set(i)
                    await self._aplay(e)
                tasks.append(self.loop.create_task(run()))
                self.loop.quiesce()
                snaps.append(self.snapshot())
            while self.pending:
                self.pending.pop(0).set_result(None)
                self.loop.quiesce()
            stuck = [t for t in tasks if not t.done()]
            tagged = self.tagged
        finally:
            self.tagged = None
            self.pending = []
        for t in tasks:
            if t.done() and not t.cancelled() and t.exception() is not None:
                tagged.append((tasks.index(t), 10 ** 9, ['other', 'task raised ' + type(t.exception()).__name__]))
        for t in stuck:
            t.cancel()
            tagged.append((tasks.index(t), 10 ** 9, ['other', 'task never finished']))
        if stuck:
            self.loop.quiesce()
        snaps[-1] = self.snapshot()
        # handlers and callbacks must start in the order of delivery
        starts = [(seq, tag) for tag, seq, en in tagged if en[0] in ('invoke', 'cb')]
        if [t for _s, t in sorted(starts)] != sorted(t for _s, t in starts):
            tagged.append((len(events) - 1, 10 ** 9, ['other', 'handlers started out of delivery order']))
        for i in range(len(events)):
            out.append(([en for tag, _s, en in tagged if tag == i], snaps[i]))
        return out

    def connect(self, namespaces, auth=None, wait=True, outcome=('accept', 'E0'), reacts=None,
                wait_timeout=None):
        self.outcome = outcome
        self.script = [list(x) for x in (reacts or [])]
        if wait_timeout is None:
            wait_timeout = 1 if self.is_async else 0
        return self._run(self.sio.connect, 'http://verif.invalid', auth=auth, namespaces=namespaces,
                         wait=wait, wait_timeout=wait_timeout)

    def emit(self, event, data=None, namespace=None, callback=None, reacts=None):
        self.script = [list(reacts or [])]
        return self._run(self.sio.emit, event, data=data, namespace=namespace, callback=callback)

    def send(self, data=None, namespace=None, callback=None, reacts=None):
        self.script = [list(reacts or [])]
        return self._run(self.sio.send, data, namespace=namespace, callback=callback)

    def call(self, event, data=None, namespace=None, reacts=None):
        self.script = [list(reacts or [])]
        return self._run(self.sio.call, event, data=data, namespace=namespace,
                         timeout=1 if self.is_async else 0)

    def disconnect(self):
        self.script = None
        return self._run(self.sio.disconnect)

    def snapshot(self):
        s = self.sio
        return {
            'connected': bool(s.connected),
            'namespaces': [[k, v] for k, v in s.namespaces.items()],
            'callbacks': sorted([ns, i] for ns, m in s.callbacks.items() for i in m),
            'binbuf': s._binary_packet is not None,
            'sid': s.sid,
            'eio': s.eio.state,
            'effort': bool(s._reconnect_task),
        }

    def close(self):
        try:
            eio_base.connected_clients.remove(self.eio)
        except ValueError:
            pass
        if self.loop is not None:
            try:
                pend = [t for t in asyncio.all_tasks(self.loop) if not t.done()]
                for t in pend:
                    t.cancel()
                if pend:
                    self.loop.run_until_complete(asyncio.gather(*pend, return_exceptions=True))
            finally:
                self.loop.close()


def encode_server_packet(ptype, data=None, namespace=None, id=None):
    """Frames the server side would put on the wire for this packet (real encoder)."""
    from socketio import packet as sp
    e = sp.Packet(ptype, data=data, namespace=namespace, id=id).encode()
    return e if isinstance(e, list) else [e]
