"""Shared machinery of the client kernel (K7) checks C08 and C09: generators of histories,
execution on the real `socketio.Client` / `AsyncClient` (harness/world_client.py) and on the Lean
model (`siodriver client`), canonicalisation, comparison, and the spec-side bookkeeping (the
"server's view" of the connection) that the property oracles are evaluated against."""
import json

from . import common as C
from . import gen as G
from . import world_client as W

RESERVED = ('connect', 'connect_error', 'disconnect', '__disconnect_final')
NS_POOL = ['/', '/a', '/b', '/c-1']
EV_POOL = ['msg', 'my event', 'a', 'message', 'é', 'x']
SRV_EV_POOL = EV_POOL + ['*']      # an event may literally be named like the catch-all key (/repo 6dcbd32)

CONNECT, DISCONNECT, EVENT, ACK, CONNECT_ERROR, BINARY_EVENT, BINARY_ACK = range(7)

SIG_F8 = 'loss-inside-connect-window'
SIG_F8B = 'disconnect-inside-connect-window'
SIG_F9 = 'root-refused-nowait-stale-namespaces'


# ------------------------------------------------------------------ replay encoding of values

def enc(v):
    if isinstance(v, (bytes, bytearray)):
        return {'__b': bytes(v).hex()}
    if isinstance(v, tuple):
        return {'__t': [enc(x) for x in v]}
    if isinstance(v, list):
        return [enc(x) for x in v]
    if isinstance(v, dict):
        return {'__d': [[k, enc(x)] for k, x in v.items()]}
    return v


def dec(v):
    if isinstance(v, list):
        return [dec(x) for x in v]
    if isinstance(v, dict):
        if '__b' in v:
            return bytes.fromhex(v['__b'])
        if '__t' in v:
            return tuple(dec(x) for x in v['__t'])
        if '__d' in v:
            return {k: dec(x) for k, x in v['__d']}
        return {k: dec(x) for k, x in v.items()}
    return v


def canon(v):
    """Comparable text of a value of the payload domain (type-exact)."""
    return json.dumps(C.j2w(v), sort_keys=False)


# ------------------------------------------------------------------ registry

def gen_ret(rng):
    r = rng.random()
    if r < 0.25:
        return ('none',)
    if r < 0.6:
        v = G.gen_value(rng, 2, 0.15)
        return ('none',) if v is None else ('one', v)      # returning None *is* "no value"
    if r < 0.8:
        return ('tuple', [G.gen_value(rng, 1, 0.15) for _ in range(rng.randint(0, 3))])
    return ('echo',)


def gen_registry(rng, is_async, sparse_p=0.15):
    style = rng.choice(['fn', 'fn', 'star', 'cls', 'mixed', 'mixed', 'sparse'])
    fns, classes = {}, {}

    def h(ev):
        return dict(ev=ev, coro=bool(is_async and rng.random() < 0.5), susp=rng.random() < 0.6,
                    legacy=bool(ev == 'disconnect' and rng.random() < 0.2),
                    ret=('none',) if ev in RESERVED else gen_ret(rng))

    def add_fn(ns, ev):
        fns[(ns, ev)] = dict(ns=ns, **h(ev))

    def add_cls(ns, evs):
        classes[ns] = dict(ns=ns, methods=[h(ev) for ev in evs])

    def events(p=0.5):
        return [e for e in EV_POOL if rng.random() < p]

    p_res = 0.3 if style == 'sparse' else 0.9
    if style in ('fn', 'mixed', 'sparse'):
        for ns in NS_POOL:
            if rng.random() < (0.3 if style == 'sparse' else 0.8):
                for ev in ('connect', 'disconnect', 'connect_error'):
                    if rng.random() < p_res:
                        add_fn(ns, ev)
                for ev in events():
                    add_fn(ns, ev)
                if rng.random() < 0.3:
                    add_fn(ns, '*')
    if style in ('star', 'mixed') or (style == 'sparse' and rng.random() < 0.3):
        if style != 'mixed' or rng.random() < 0.5:
            for ev in ('connect', 'disconnect', 'connect_error'):
                if rng.random() < p_res:
                    add_fn('*', ev)
            for ev in events(0.4):
                add_fn('*', ev)
            if rng.random() < 0.5:
                add_fn('*', '*')
    if style in ('cls', 'mixed'):
        for ns in NS_POOL + ['*']:
            if rng.random() < (0.8 if style == 'cls' else 0.35) * (0.5 if ns == '*' else 1):
                evs = [ev for ev in ('connect', 'disconnect', 'connect_error') if rng.random() < p_res]
                add_cls(ns, evs + events())
    return {'fns': list(fns.values()), 'classes': list(classes.values())}


def resolve(reg, ns, ev, args):
    """The documented precedence, written from the documentation of `on()` /
    `register_namespace()`; -> (kind, nskey, evkey, args_received, ret_spec) or None."""
    fns = {(h['ns'], h['ev']): h for h in reg['fns']}
    classes = {c['ns']: {m['ev']: m for m in c['methods']} for c in reg['classes']}
    res = ev in RESERVED
    cand = []
    # a namespace literally named '*' is never an exact-namespace match (/repo 74a0887)
    if ev != '*' and ns != '*':
        cand.append(((ns, ev), list(args)))
    if not res and ns != '*':
        cand.append(((ns, '*'), [ev] + list(args)))
    if ev != '*':
        cand.append((('*', ev), [ns] + list(args)))
    if not res:
        cand.append((('*', '*'), [ev, ns] + list(args)))
    for key, a in cand:
        if key in fns:
            hh = fns[key]
            if ev == 'disconnect' and hh.get('legacy'):
                a = a[:-1]
            return ('fn', key[0], key[1], a, hh['ret'])
    if ns != '*' and ns in classes:
        m = classes[ns].get(ev)
        if m is None:
            return None
        a = list(args)
        if ev == 'disconnect' and m.get('legacy'):
            a = a[:-1]
        return ('cls', ns, ev, a, m['ret'])
    if '*' in classes:
        m = classes['*'].get(ev)
        if m is None:
            return None
        a = [ns] + list(args)
        if ev == 'disconnect' and m.get('legacy'):
            a = a[:-1]
        return ('cls', '*', ev, a, m['ret'])
    return None


def derived_namespaces(reg):
    """what `connect(namespaces=None)` must connect: every namespace that has a function handler or a
    class-based namespace, once; the catch-all '*' is skipped; nothing left -> ['/'].  (The library
    builds it from a set: the order is unspecified, the harness fixes the sorted order.)"""
    nss = sorted({h['ns'] for h in reg['fns']} | {c['ns'] for c in reg['classes']} - {'*'})
    nss = [n for n in nss if n != '*']
    return nss or ['/']


def norm_connect_order(op, out):
    """`namespaces=None`: the CONNECT packets of the call are compared as a multiset"""
    if op.get('op') == 'connect' and op.get('default'):
        idx = [i for i, t in enumerate(out) if t[0] == 'send' and t[1][:1] == '0']
        vals = sorted(out[i][1] for i in idx)
        for i, v_ in zip(idx, vals):
            out[i] = ['send', v_]
        if op['outcome'][0] == 'refuse':
            # transport refused: connect_error runs once per derived namespace, in the set's order
            idx = [i for i, t in enumerate(out) if t[0] == 'invoke']
            vals = sorted((out[i] for i in idx), key=repr)
            for i, v_ in zip(idx, vals):
                out[i] = v_
    return out


def registry_cfg_line(reg, reconnection=False):
    rets = []
    for hh in reg['fns']:
        rets.append([False, C.s2w(hh['ns']), C.s2w(hh['ev']), ret2w(hh['ret'])])
    for c in reg['classes']:
        for m in c['methods']:
            rets.append([True, C.s2w(c['ns']), C.s2w(m['ev']), ret2w(m['ret'])])
    return {'cfg': {
        'reconnection': bool(reconnection),
        'fns': [[C.s2w(hh['ns']), C.s2w(hh['ev']), bool(hh.get('legacy'))] for hh in reg['fns']],
        'classes': [[C.s2w(c['ns']), [[C.s2w(m['ev']), bool(m.get('legacy'))] for m in c['methods']]]
                    for c in reg['classes']],
        'rets': rets}}


def ret2w(spec):
    if spec[0] == 'echo':
        return {'echo': True}
    if spec[0] == 'none':
        return {'none': True}
    if spec[0] == 'one':
        return {'one': C.j2w(spec[1])}
    return {'tuple': [C.j2w(x) for x in spec[1]]}


def pack(ret):
    """emit()/ACK argument packing: None -> [], tuple -> list, anything else -> [x]"""
    if ret is None:
        return []
    if isinstance(ret, tuple):
        return list(ret)
    return [ret]


# ------------------------------------------------------------------ events on the wire

def srv_frames(ptype, data=None, ns=None, pid=None):
    """-> list of ('frame', payload) for one server packet"""
    return [('frame', f) for f in W.encode_server_packet(ptype, data, ns, pid)]


def ev2w(e):
    if e[0] == 'frame':
        f = e[1]
        if isinstance(f, (bytes, bytearray)):
            return {'k': 'bin', 'hex': bytes(f).hex()}
        from socketio import packet as sp
        loads = []
        seen = set()
        for i in range(len(f)):
            suf = f[i:]
            if suf in seen or suf[0] in ',:}] ':
                continue
            seen.add(suf)
            try:
                v = sp.Packet.json.loads(suf)
            except Exception:   # noqa
                continue
            try:
                loads.append([C.s2w(suf), C.j2w(v)])
            except TypeError:
                loads.append([C.s2w(suf), {'exc': 'Exception'}])
        return {'k': 'text', 'text': C.s2w(f), 'cls': C.digit_table(f), 'loads': loads}
    return {'k': e[0]}


def op2w(op):
    k = op['op']
    if k == 'connect':
        oc = op['outcome']
        if oc[0] == 'accept':
            ocw = {'accept': C.s2w(oc[1])}
        else:
            a = oc[1]
            ocw = {'refuse': C.j2w(a[1] if len(a) > 1 else a[0])}
        auth = op['auth']
        return {'op': 'connect', 'nss': [C.s2w(n) for n in op['nss']],
                'auth': {'callable': bool(auth['callable']), 'val': C.oj2w(auth['val'], auth['val'] is not None)},
                'wait': bool(op['wait']), 'outcome': ocw,
                'reacts': [[ev2w(e) for e in rs] for rs in op['reacts']]}
    if k in ('emit', 'send', 'call'):
        cb = op.get('cb')
        d = {'op': k, 'data': C.data2w(op['data']), 'ns': C.os2w(op['ns']),
             'reacts': [ev2w(e) for e in op['reacts']]}
        if k != 'send':
            d['ev'] = C.s2w(op['ev'])
        if k == 'call':
            d['tok'] = op['tok']
        else:
            d['cb'] = None if cb is None else {'tok': cb['tok'], 'kind': 'raises' if cb.get('raises') else
                                               'coro' if cb.get('coro') else 'fn'}
        return d
    if k == 'disconnect':
        return {'op': 'disconnect'}
    if k == 'ev':
        return {'op': 'ev', 'e': ev2w(op['e'])}
    raise ValueError(op)


# ------------------------------------------------------------------ execution on the real classes

def run_impl_op(w, op):
    k = op['op']
    if k == 'connect':
        a = op['auth']
        auth = w.auth(a['val'], a['callable'], a.get('coro', False))
        nss = None if op.get('default') else \
            op['nss'][0] if op.get('as_str') and len(op['nss']) == 1 else list(op['nss'])
        res = w.connect(nss, auth=auth, wait=op['wait'], outcome=op['outcome'], reacts=op['reacts'])
    elif k == 'emit':
        cb = op.get('cb')
        res = w.emit(op['ev'], op['data'], op['ns'],
                     callback=None if cb is None else w.callback(cb['tok'], cb.get('coro', False), cb.get('susp', False),
                                                                 cb.get('raises', False)),
                     reacts=op['reacts'])
    elif k == 'send':
        cb = op.get('cb')
        res = w.send(op['data'], op['ns'],
                     callback=None if cb is None else w.callback(cb['tok'], cb.get('coro', False), cb.get('susp', False),
                                                                 cb.get('raises', False)),
                     reacts=op['reacts'])
    elif k == 'call':
        res = w.call(op['ev'], op['data'], op['ns'], reacts=op['reacts'])
    elif k == 'disconnect':
        res = w.disconnect()
    elif k == 'ev':
        w.event(op['e'])
        res = None
    else:
        raise ValueError(op)
    return {'trace': w.take(), 'res': res, 'snap': w.snapshot()}


def run_impl_burst(w, ops):
    """consecutive `ev` operations of one burst: delivered concurrently (asyncio), -> one record each"""
    res = w.burst([op['e'] for op in ops])
    return [{'trace': t, 'res': None, 'snap': s} for t, s in res]


def run_ops(w, ops, sink):
    """execute a list of operations, bursts as a unit; `sink(op, rec)` per operation"""
    i = 0
    while i < len(ops):
        b = ops[i].get('burst')
        if ops[i].get('reent') is not None and i + 1 < len(ops) and ops[i + 1].get('reent') == ops[i]['reent']:
            res = w.reentrant(ops[i]['e'])
            for op, (t, sn) in zip(ops[i:i + 2], res):
                sink(op, {'trace': t, 'res': None, 'snap': sn})
            i += 2
            continue
        if b is None:
            sink(ops[i], run_impl_op(w, ops[i]))
            i += 1
            continue
        j = i
        while j < len(ops) and ops[j].get('burst') == b:
            j += 1
        for op, rec in zip(ops[i:j], run_impl_burst(w, ops[i:j])):
            sink(op, rec)
        i = j


def canon_impl(rec):
    out = []
    for t in rec['trace']:
        if t[0] == 'send':
            f = t[1]
            out.append(['sendb', bytes(f).hex()] if isinstance(f, (bytes, bytearray)) else ['send', f])
        elif t[0] == 'close':
            out.append(['close'])
        elif t[0] == 'auth':
            out.append(['auth'])
        elif t[0] == 'invoke':
            out.append(['invoke', t[1] == 'cls', t[2], t[3], [canon(x) for x in t[4]]])
        elif t[0] == 'cb':
            out.append(['cb', t[1], [canon(x) for x in t[2]]])
        elif t[0] == 'contained':
            out.append(['contained'])
        elif t[0] == 'effort':
            out.append(['effort'])
        elif t[0] in ('>', '<'):
            pass
        else:
            out.append(['other', repr(t)])
    r = rec['res']
    if r is not None:
        if r[0] == 'ret':
            out.append(['ret', json.dumps(C.data2w(r[1]))])
        else:
            out.append(['exc', r[1]])
    return out


def canon_snap_impl(s):
    return {'connected': s['connected'],
            'namespaces': sorted([k, canon(v)] for k, v in s['namespaces']),
            'callbacks': sorted(s['callbacks']), 'binbuf': s['binbuf'], 'sid': s['sid'], 'eio': s['eio'],
            'effort': s.get('effort', False)}


def canon_model(ans):
    out = []
    for o in ans['out']:
        k = o['k']
        if k == 'send':
            out.append(['send', C.w2s(o['text'])])
            for a in o['atts']:
                out.append(['sendb', a])
        elif k in ('close', 'auth', 'effort'):
            out.append([k])
        elif k == 'trig':
            t = o['tgt']
            if t is not None:
                out.append(['invoke', t['cls'], C.w2s(t['nsKey']), C.w2s(t['evKey']),
                            [json.dumps(x) for x in t['args']]])
        elif k == 'cb':
            if o['kind'] != 'call':
                out.append(['cb', o['tok'], [json.dumps(x) for x in o['args']]])
        elif k == 'contained':
            out.append(['contained'])
        elif k == 'ret':
            d = o['data']
            if d == {'one': None}:
                d = {'none': True}       # Python has one None: "returned None" and "returned nothing"
            out.append(['ret', json.dumps(d)])
        elif k == 'exc':
            out.append(['exc', o['e']])
    return out


def canon_snap_model(q):
    return {'connected': q['connected'],
            'namespaces': sorted([C.w2s(k), json.dumps(v)] for k, v in q['namespaces']),
            'callbacks': sorted([C.w2s(k), i] for k, i in q['callbacks']),
            'binbuf': q['binbuf'], 'sid': C.ow2s(q['sid']), 'eio': q['eio'], 'effort': q.get('effort', False)}


def model_notes(ans):
    """connect / disconnect notifications of the model trace (with or without a handler)."""
    out = []
    for o in ans['out']:
        if o['k'] == 'trig':
            out.append((C.w2s(o['ev']), C.w2s(o['ns']), o['tgt'] is not None))
    return out


# ------------------------------------------------------------------ the server's view (spec side)

class View:
    """What the peer knows about the connection: transport up?, namespaces asked for and not yet
    answered, namespaces accepted and not yet ended (with their sids), attachments still owed."""

    def __init__(self):
        self.reset()
        self.region = None          # known-finding region the history has entered
        self.partial = False        # a namespace of this connection was refused

    def reset(self):
        self.up = False
        self.esid = None
        self.asked = []
        self.acc = {}
        self.owed = 0
        self.pending = None         # binary packet being sent: (ptype, ns, id, data)
        self.out = {}               # outstanding client callbacks: ns -> {id: (tok, kind)}
        self.ctr = {}               # ns -> last id seen
        self.acked = {}             # ns -> ids already acknowledged in this connection

    def end(self):
        ended = list(self.acc)
        self.reset()
        self.partial = False
        return ended


def decode_srv(frame):
    from socketio import packet as sp
    p = sp.Packet(encoded_packet=frame)
    return p


# ------------------------------------------------------------------ history generator

class HistoryGen:
    """Generates one operation at a time from the spec-side view (never from the implementation's
    answers, so a broken implementation is still driven by a conformant peer)."""

    def __init__(self, rng, is_async, profile, reg, view):
        self.rng = rng
        self.is_async = is_async
        self.profile = profile
        self.reg = reg
        self.v = view
        self.tok = 0
        self.nsid = 0
        self.neio = 0

    # ---- pieces
    def new_tok(self):
        self.tok += 1
        return self.tok

    def new_sid(self):
        self.nsid += 1
        return 'S%d' % self.nsid

    def value(self, bytes_p=0.15):
        return G.gen_value(self.rng, 2, bytes_p)

    def data(self):
        r = self.rng.random()
        if r < 0.2:
            return None
        if r < 0.65:
            v = self.value()
            return v if v is not None and not isinstance(v, tuple) else 'v'
        return tuple(self.value() for _ in range(self.rng.randint(0, 3)))

    def evname(self):
        return self.rng.choice(EV_POOL)

    def connect_packet(self, ns, with_sid=True):
        if with_sid:
            return srv_frames(CONNECT, {'sid': self.new_sid()}, ns)
        return srv_frames(CONNECT, self.rng.choice([None, {}]), ns)

    def event_frames(self, ns=None, pid='auto', binary=None):
        rng = self.rng
        v = self.v
        if ns is None:
            pool = list(v.acc) or NS_POOL
            ns = rng.choice(pool) if rng.random() < 0.9 else rng.choice(NS_POOL)
        if pid == 'auto':
            r = rng.random()
            pid = None if r < 0.35 else 0 if r < 0.5 else rng.randint(1, 12) if r < 0.85 else G.gen_id(rng)
        if binary is None:
            binary = rng.random() < 0.25
        args = [self.value(0.5 if binary else 0.0) for _ in range(rng.randint(0, 3))]
        if binary and not G.has_bytes(args):
            args.append(G.gen_bytes(rng))
        return srv_frames(EVENT, [self.rng.choice(SRV_EV_POOL)] + args, ns, pid)

    def ack_frames(self, kind=None):
        """-> frames of an ACK: correct / duplicate / unknown / cross-namespace / no id"""
        rng = self.rng
        v = self.v
        outstanding = [(ns, i) for ns, m in v.out.items() for i in m]
        if kind is None:
            kind = rng.choice(['correct'] * 5 + ['dup', 'unknown', 'cross', 'noid', 'zero'])
        ns, pid = None, None
        if kind == 'correct' and outstanding:
            ns, pid = rng.choice(outstanding)
        elif kind == 'dup' and any(v.acked.values()):
            ns = rng.choice([n for n, s in v.acked.items() if s])
            pid = rng.choice(sorted(v.acked[ns]))
        elif kind == 'cross' and outstanding:
            ns0, pid = rng.choice(outstanding)
            others = [n for n in (list(v.acc) or NS_POOL) if n != ns0 and pid not in v.out.get(n, {})]
            ns = rng.choice(others) if others else None
        elif kind == 'noid':
            ns, pid = rng.choice(list(v.acc) or NS_POOL), None
        elif kind == 'zero':
            ns, pid = rng.choice(list(v.acc) or NS_POOL), 0
        if ns is None:
            kind = 'unknown'
            ns = rng.choice(list(v.acc) or NS_POOL)
            pid = rng.choice([0, 99, 1000, 7]) if rng.random() < 0.7 else rng.randint(0, 30)
        binary = rng.random() < 0.2
        args = [self.value(0.5 if binary else 0.0) for _ in range(rng.randint(0, 3))]
        if binary and not G.has_bytes(args):
            args.append(G.gen_bytes(rng))
        return srv_frames(ACK, args, ns, pid), kind

    def noise(self, n=2):
        """events / acks the server may send at any time on a live connection"""
        out = []
        for _ in range(self.rng.randint(0, n)):
            if self.rng.random() < 0.6:
                out += self.event_frames()
            else:
                out += self.ack_frames()[0]
        return out

    # ---- operations
    def op_connect(self):
        rng = self.rng
        k = rng.choice([1, 1, 2, 2, 3])
        nss = rng.sample(NS_POOL, k)
        default = rng.random() < 0.2
        if default:
            nss = derived_namespaces(self.reg)       # connect(namespaces=None)
        r = rng.random()
        aval = None if r < 0.3 else rng.choice([{}, {'token': 'abc'}, {'user': 'é', 'n': [1, 2]}, 'secret', '',
                                                  [1, 'x'], False]) if r < 0.8 else self.value(0.0)
        if isinstance(aval, (int, float)) and not isinstance(aval, bool):
            aval = {'n': aval}       # a bare number is outside the codec's domain (DESIGN §5 C01)
        auth = {'val': aval, 'callable': rng.random() < 0.4}
        auth['coro'] = bool(auth['callable'] and self.is_async and rng.random() < 0.5)
        wait = rng.random() < 0.7
        if rng.random() < 0.08:
            a = rng.choice([['Connection refused by the server'], ['Unexpected status code 401 in server response',
                                                                     {'message': 'denied', 'code': 7}],
                            ['Unexpected response from server', None]])
            return {'op': 'connect', 'nss': nss, 'auth': auth, 'wait': wait, 'outcome': ('refuse', a),
                    'reacts': [], 'window': 'refused', 'default': default}
        self.neio += 1
        oc = ('accept', 'E%d' % self.neio)
        # what happens inside the window
        r = rng.random()
        p_region = 0.02
        if self.profile == 'c09':
            # C09 speaks about events and acknowledgements on established connections
            window = 'all' if wait or rng.random() < 0.5 else 'later'
        elif r < 0.60 or not wait and r < 0.78:
            window = 'all' if wait or rng.random() < 0.5 else 'later'
        elif r < 0.60 + p_region:
            window = 'loss'
        elif r < 0.60 + 2 * p_region:
            window = 'disc'
        elif r < 0.80:
            window = 'partial'
        elif r < 0.87:
            window = 'refuse_all'
        elif r < 0.93:
            window = 'silent'
        else:
            window = 'later' if not wait else 'all'
        answers = []                # per requested namespace: frames answering it
        for n in nss:
            if window in ('all', 'loss', 'disc'):
                answers.append(self.connect_packet(n, rng.random() < 0.9))
            elif window == 'partial':
                answers.append(None)
            elif window == 'refuse_all':
                answers.append(srv_frames(CONNECT_ERROR, rng.choice(['no', {'message': 'denied'}, None, ['a', 1]]), n))
            else:
                answers.append([])
        if window == 'partial':
            if len(nss) == 1:
                answers = [[]]
                window = 'silent'
            else:
                acc_n = rng.randint(1, len(nss) - 1)
                order = list(range(len(nss)))
                rng.shuffle(order)
                for j, i in enumerate(order):
                    if j < acc_n:
                        answers[i] = self.connect_packet(nss[i])
                    elif rng.random() < 0.7:
                        answers[i] = srv_frames(CONNECT_ERROR, rng.choice(['no', {'message': 'denied'}, None]), nss[i])
                    else:
                        answers[i] = []
        # placement: answers arrive after their CONNECT was sent; most often all after the last one
        reacts = [[] for _ in nss]
        if rng.random() < 0.6:
            order = list(range(len(nss)))
            if rng.random() < 0.4:
                rng.shuffle(order)
            for i in order:
                reacts[-1] += answers[i]
                if window in ('all',) and rng.random() < 0.15:
                    reacts[-1] += self.event_frames(ns=nss[i])
        else:
            for i in range(len(nss)):
                j = rng.randint(i, len(nss) - 1)
                reacts[j] += answers[i]
        if window == 'all' and rng.random() < 0.1:
            # a duplicate CONNECT answer is ignored
            i = rng.randrange(len(nss))
            reacts[-1] += srv_frames(CONNECT, {'sid': 'DUP'}, nss[i])
        if window == 'loss':
            j = rng.randrange(len(nss))
            pos = rng.randint(0, len(reacts[j]))
            reacts[j].insert(pos, ('lost',) if rng.random() < 0.7 else ('close',))
        if window == 'disc':
            reacts[-1] += srv_frames(DISCONNECT, None, rng.choice(nss))
        if default:
            # the order of the CONNECT packets is unspecified: everything arrives after the last one
            reacts = [[] for _ in nss[:-1]] + [[e for rs in reacts for e in rs]]
        return {'op': 'connect', 'nss': nss, 'auth': auth, 'wait': wait, 'outcome': oc, 'reacts': reacts,
                'window': window, 'as_str': not default and len(nss) == 1 and rng.random() < 0.4,
                'default': default}

    def op_emit(self, connected_ns=True):
        rng = self.rng
        v = self.v
        if connected_ns and v.acc:
            ns = rng.choice(list(v.acc))
        else:
            others = [n for n in NS_POOL + ['/zz'] if n not in v.acc]
            ns = rng.choice(others) if others else '/zz'
        nsarg = None if ns == '/' and rng.random() < 0.5 else ns
        kind = rng.choice(['emit', 'emit', 'send', 'call'] if self.profile == 'c08'
                          else ['emit', 'emit', 'emit', 'send', 'call', 'call'])
        data = self.data()
        op = {'op': kind, 'data': data, 'ns': nsarg, 'reacts': []}
        if kind == 'send' and data is None:
            op['data'] = 'text'
        if kind != 'send':
            op['ev'] = self.evname()
        will_send = ns in v.acc and v.up
        nid = v.ctr.get(ns, 0) + 1
        if kind == 'call':
            op['tok'] = self.new_tok()
            r = rng.random()
            if will_send and r < 0.65:
                op['reacts'] = self.noise(1) if rng.random() < 0.3 else []
                k = rng.random()
                args = [self.value(0.2) for _ in range(rng.choice([0, 1, 1, 2, 3]))]
                op['reacts'] += srv_frames(ACK, args, ns, nid)
                if k < 0.15:
                    op['reacts'] += srv_frames(ACK, ['again'], ns, nid)      # repeated inside the call
            elif will_send and r < 0.8:
                op['reacts'] = srv_frames(ACK, ['wrong ns'], rng.choice([n for n in NS_POOL if n != ns]), nid) \
                    + srv_frames(ACK, ['wrong id'], ns, nid + 1 + rng.randint(0, 3))
        else:
            if rng.random() < (0.7 if self.profile == 'c09' else 0.35):
                op['cb'] = {'tok': self.new_tok(), 'coro': bool(self.is_async and rng.random() < 0.5),
                            'susp': rng.random() < 0.6, 'raises': rng.random() < 0.25}
            else:
                op['cb'] = None
            if will_send:
                r = rng.random()
                if op['cb'] is not None and r < 0.3:
                    args = [self.value(0.2) for _ in range(rng.randint(0, 3))]
                    op['reacts'] = srv_frames(ACK, args, ns, nid)
                    if rng.random() < 0.4:
                        op['reacts'] += srv_frames(ACK, args, ns, nid)       # the same ACK again
                elif r < 0.45:
                    op['reacts'] = self.noise(2)
                elif r < 0.5:
                    op['reacts'] = srv_frames(DISCONNECT, None, ns)
                elif r < 0.54:
                    op['reacts'] = [('lost',)]
        return op

    def op_srv(self):
        """one transport event outside an API call"""
        rng = self.rng
        v = self.v
        r = rng.random()
        w = {'c08': (0.25, 0.40, 0.60, 0.72, 0.80), 'c09': (0.45, 0.85, 0.90, 0.94, 0.97)}[self.profile]
        if v.asked and rng.random() < 0.6:
            n = rng.choice(v.asked)
            if self.profile == 'c09' or rng.random() < (0.97 if n == '/' else 0.8):
                return self.connect_packet(n, rng.random() < 0.9)
            return srv_frames(CONNECT_ERROR, rng.choice(['no', {'message': 'x'}, None]), n)
        if r < w[0]:
            return self.event_frames()
        if r < w[1]:
            return self.ack_frames()[0]
        if r < w[2] and v.acc:
            return srv_frames(DISCONNECT, None, rng.choice(list(v.acc)))
        if r < w[3]:
            return [('lost',)]
        if r < w[4]:
            return [('close',)]
        return self.event_frames()

    def next_ops(self):
        """-> list of ops (a multi-frame packet is several `ev` ops, possibly cut by a loss)"""
        rng = self.rng
        v = self.v
        r = rng.random()
        if not v.up:
            if r < 0.7:
                return [self.op_connect()]
            if r < 0.85:
                return [self.op_emit(False)]
            if r < 0.92:
                return [{'op': 'disconnect'}]
            return [{'op': 'ev', 'e': e} for e in self.op_srv()]
        wts = {'c08': (0.30, 0.40, 0.80, 0.90, 0.94), 'c09': (0.45, 0.50, 0.93, 0.96, 0.98)}[self.profile]
        if r < wts[0]:
            return [self.op_emit(True)]
        if r < wts[1]:
            return [self.op_emit(False)]
        user_out = [(n_, i_) for n_, m_ in v.out.items() for i_, (t_, k_) in m_.items() if k_ != 'call']
        if r < wts[2] and user_out and rng.random() < (0.25 if self.profile == 'c09' else 0.08):
            # an ACK and its duplicate; threaded client: the duplicate arrives from inside the callback
            self.nburst = getattr(self, 'nburst', 0) + 1
            n_, i_ = rng.choice(user_out)
            f = srv_frames(ACK, [self.value(0.0) for _ in range(rng.randint(0, 2))], n_, i_)[0]
            return [{'op': 'ev', 'e': f, 'reent': self.nburst}, {'op': 'ev', 'e': f, 'reent': self.nburst}]
        if r < wts[2] and rng.random() < (0.3 if self.profile == 'c09' else 0.1):
            # a burst: several packets arrive while the handlers of the earlier ones are still running
            self.nburst = getattr(self, 'nburst', 0) + 1
            evs = []
            for k in range(rng.randint(2, 4)):
                q = rng.random()
                if k == 0 and q < 0.6:
                    evs += self.event_frames(binary=True)
                elif q < 0.65:
                    evs += self.event_frames()
                else:
                    evs += self.ack_frames()[0]
            return [{'op': 'ev', 'e': e, 'burst': self.nburst} for e in evs]
        if r < wts[2]:
            evs = self.op_srv()
            ops = [{'op': 'ev', 'e': e} for e in evs]
            if len(ops) > 1 and rng.random() < 0.12:
                # the transport goes away (or the client leaves) in the middle of a binary packet
                cut = rng.randint(1, len(ops) - 1)
                ops = ops[:cut] + [rng.choice([{'op': 'ev', 'e': ('lost',)}, {'op': 'ev', 'e': ('close',)},
                                               {'op': 'disconnect'}])]
            elif len(ops) > 1 and rng.random() < 0.15:
                # client API calls between the frames of a binary packet
                cut = rng.randint(1, len(ops) - 1)
                mid = self.op_emit(rng.random() < 0.8)
                mid['reacts'] = []      # the server is in the middle of its own packet
                ops = ops[:cut] + [mid] + ops[cut:]
            return ops
        if r < wts[3]:
            return [{'op': 'disconnect'}]
        if r < wts[4]:
            return [self.op_connect()]          # 'Already connected'
        # the server ends every namespace, one by one
        return [{'op': 'ev', 'e': e} for n in list(v.acc) for e in srv_frames(DISCONNECT, None, n)]


# ------------------------------------------------------------------ property oracles

def split_trace(trace):
    """-> (top-level entries, [block, ...]) where a block is what one transport event caused;
    `order` keeps the interleaving: list of ('top', entry) | ('block', index)."""
    top, blocks, order = [], [], []
    cur = None
    for t in trace:
        if t[0] == '>':
            cur = []
        elif t[0] == '<':
            blocks.append(cur)
            order.append(('block', len(blocks) - 1))
            cur = None
        elif cur is not None:
            cur.append(t)
        else:
            top.append(t)
            order.append(('top', t))
    return top, blocks, order


def sent_packets(entries):
    from . import world as _w
    frames = [t[1] for t in entries if t[0] == 'send']
    try:
        return _w.decode_frames(frames)
    except Exception as ex:     # noqa
        return [('undecodable', type(ex).__name__)]


def invokes(entries):
    return [['invoke', t[1], t[2], t[3], [canon(x) for x in t[4]]] for t in entries if t[0] == 'invoke']


def cbs(entries):
    return [[t[1], [canon(x) for x in t[2]]] for t in entries if t[0] == 'cb']


def expect_invoke(reg, ns, ev, args):
    r = resolve(reg, ns, ev, args)
    if r is None:
        return []
    return [['invoke', r[0], r[1], r[2], [canon(x) for x in r[3]]]]


def notif_of(reg, t):
    """(event, namespace) an invoke record stands for, recovered from slot + arguments"""
    kind, nskey, evkey, args = t[1], t[2], t[3], list(t[4])
    ev, ns = evkey, nskey
    if kind == 'fn':
        if evkey == '*':
            ev = args.pop(0)
        if nskey == '*':
            ns = args.pop(0)
    else:
        if nskey == '*':
            ns = args.pop(0)
    return ev, ns


class Oracle:
    """Evaluates the clauses of C08 / C09 on what the implementation did, against the server's
    view of the connection.  Failures: (clause, text); inside a known-finding region they are
    attributed to the region's signature."""

    def __init__(self, reg, clauses='all', reconnection=False):
        self.reg = reg
        self.reconnection = reconnection
        self.effort = False         # a reconnection effort has been started (and is held)
        self.v = View()
        self.fail = []              # (clause, text, op index)
        self.known = {}             # signature -> text
        self.dead = False           # the history left the quantifier (only shrink candidates do)
        self.wait = True
        self.notifs = {}            # ns -> [connect notifications, disconnect notifications]
        self.stats = {}
        self.opi = -1
        self.prev_snap = None
        self.call_args = {}         # tok -> acknowledged args
        self.fired = set()
        self.balance = True         # this connection counts for the disconnect-once balance
        self.failed_connect = False
        self.acc_log = []           # the view's accepted map after every operation

    # ---- reporting
    def bad(self, clause, text):
        if self.dead:
            return
        if self.v.region:
            self.known.setdefault(self.v.region, '%s (first consequence: %s: %s)' % (
                REGION_TEXT[self.v.region], clause, text))
        else:
            self.fail.append((clause, text, self.opi))

    def stat(self, k):
        self.stats[k] = self.stats.get(k, 0) + 1

    def leave(self, where):
        """the history is outside the quantifier (the peer is not a conformant server)"""
        self.dead = self.nonconformant = True
        self.dead_at = where

    def strict(self):
        return not self.dead

    def enter_region(self, sig):
        if not self.v.region:
            self.v.region = sig
            self.v.region_at = self.opi
            self.stat('region.' + sig)

    # ---- bookkeeping helpers
    def note_invokes(self, entries):
        for t in entries:
            if t[0] == 'invoke':
                ev, ns = notif_of(self.reg, t)
                if ev == 'connect':
                    self.notifs.setdefault(ns, [0, 0])[0] += 1
                elif ev == 'disconnect':
                    self.notifs.setdefault(ns, [0, 0])[1] += 1

    def end_connection(self):
        ended = self.v.end()
        return ended

    def expect_disconnects(self, block, ended, reason, clause='C08.disconnect_once'):
        exp = []
        for n in ended:
            exp += expect_invoke(self.reg, n, 'disconnect', [reason])
        got = invokes(block)
        if sorted(map(json.dumps, got)) != sorted(map(json.dumps, exp)):
            self.bad(clause, 'disconnect notifications %r, required exactly one per connected namespace %r '
                             '(reason %r): %r' % (got, ended, reason, exp))

    # ---- one transport event
    def on_event(self, e, block, win):
        v = self.v
        self.note_invokes(block)
        if not v.up:
            if block:
                self.bad('C08.reset', 'a dead transport caused %r' % (block,))
            return
        if e[0] in ('lost', 'close'):
            self.stat('end.' + e[0] + ('.window' if win else ''))
            if win:
                self.enter_region(SIG_F8)
            if v.owed:
                self.stat('end.mid_binary_packet')
            if any(v.out.values()):
                self.stat('end.callbacks_outstanding')
            ended = self.end_connection()
            if self.strict_before:
                self.expect_disconnects(block, ended, W.TRANSPORT_ERROR if e[0] == 'lost' else W.SERVER_DISCONNECT)
            # an accidental loss starts the reconnection effort (once); nothing else does
            want = self.reconnection and e[0] == 'lost' and not self.effort
            got = sum(1 for t in block if t[0] == 'effort')
            if got != (1 if want else 0):
                self.bad('C08.reset', 'reconnection effort started %d times at %s (reconnection=%r, pending=%r)'
                         % (got, e[0], self.reconnection, self.effort))
            if want:
                self.effort = True
                self.stat('end.lost.effort_started_and_held')
            return
        f = e[1]
        if v.owed > 0:
            # attachment of the binary packet in progress
            v.owed -= 1
            done = v.pending.add_attachment(f) if isinstance(f, (bytes, bytearray)) else None
            if done is None:
                v.pending = None
                v.owed = 0
                self.leave(855)
                return
            if v.owed > 0:
                if block:
                    self.bad('C09.invoke_once', 'an incomplete binary packet caused %r' % (block,))
                return
            p = v.pending
            v.pending = None
            ptype = EVENT if p.packet_type == BINARY_EVENT else ACK
            return self.on_packet(ptype, p.namespace or '/', p.id, p.data, block, win)
        if isinstance(f, (bytes, bytearray)):
            self.leave(866)
            return
        p = decode_srv(f)
        if p.packet_type in (BINARY_EVENT, BINARY_ACK):
            if p.attachment_count > 0:
                v.owed = p.attachment_count
                v.pending = p
                if block:
                    self.bad('C09.invoke_once', 'a binary packet header alone caused %r' % (block,))
                return
            self.leave(876)
            return
        return self.on_packet(p.packet_type, p.namespace or '/', p.id, p.data, block, win)

    def on_packet(self, ptype, ns, pid, data, block, win):
        v = self.v
        reg = self.reg
        if ptype == CONNECT:
            if ns in v.asked:
                v.asked.remove(ns)
                sid = data.get('sid', v.esid) if isinstance(data, dict) else v.esid
                v.acc[ns] = sid
                self.stat('srv.connect.accept')
                exp = expect_invoke(reg, ns, 'connect', [])
                if invokes(block) != exp:
                    self.bad('C08.connect_handler_once', 'CONNECT %s accepted: handler invocations %r, required %r'
                             % (ns, invokes(block), exp))
            elif ns in v.acc:
                self.stat('srv.connect.duplicate')
                if block:
                    self.bad('C08.connect_handler_once', 'a repeated CONNECT %s caused %r' % (ns, block))
            else:
                self.leave(898)
        elif ptype == CONNECT_ERROR:
            self.stat('srv.connect_error')
            if ns not in v.asked:
                self.leave(902)
                self.dead = True
                return
            v.asked.remove(ns)
            v.partial = True
            if ns == '/' and not self.wait:
                self.enter_region(SIG_F9)
            args = [] if data is None else list(data) if isinstance(data, (list, tuple)) else [data]
            exp = expect_invoke(reg, ns, 'connect_error', args)
            if invokes(block) != exp:
                self.bad('C08.wait_all', 'CONNECT_ERROR %s: handler invocations %r, required %r'
                         % (ns, invokes(block), exp))
        elif ptype == DISCONNECT:
            if ns not in v.acc:
                self.leave(916)
                return
            self.stat('srv.disconnect' + ('.window' if win else ''))
            if win:
                self.enter_region(SIG_F8B)
            del v.acc[ns]
            if self.strict():
                self.expect_disconnects(block, [ns], W.SERVER_DISCONNECT)
            if not v.acc:
                self.stat('end.last_namespace')
                if self.strict() and ['close'] not in block:
                    self.bad('C08.mirror', 'the last namespace ended but the transport was not closed')
                self.end_connection()
        elif ptype == EVENT:
            self.stat('srv.event' + ('.id' if pid is not None else ''))
            ok = isinstance(data, list) and data and isinstance(data[0], str)
            if not ok:
                self.leave(933)
                return
            r = resolve(reg, ns, data[0], data[1:])
            exp = expect_invoke(reg, ns, data[0], data[1:])
            self.stat('srv.event.' + ('handled' if r else 'unhandled'))
            if invokes(block) != exp:
                self.bad('C09.invoke_once', 'EVENT %r on %s: handler invocations %r, required %r'
                         % (data[0], ns, invokes(block), exp))
            sent = sent_packets(block)
            if pid is None:
                if sent:
                    self.bad('C09.ack_unconditional', 'an event without id was answered with %r' % (sent,))
            else:
                ret = W.ret_value(r[4], r[3]) if r else None
                want = pack(ret)
                good = (len(sent) == 1 and sent[0][0] in (ACK, BINARY_ACK) and sent[0][1] == ns
                        and sent[0][2] == pid and C.same(sent[0][3], want))
                if not good:
                    self.bad('C09.ack_unconditional', 'EVENT %r id %r on %s answered with %r, required one ACK '
                             '(%s, %r, %r)' % (data[0], pid, ns, sent, ns, pid, want))
        elif ptype == ACK:
            hit = v.out.get(ns, {}).pop(pid, None) if pid is not None else None
            got = cbs(block)
            if hit is None:
                self.stat('srv.ack.unmatched')
                if got or invokes(block) or sent_packets(block):
                    self.bad('C09.unknown_ack_inert', 'ACK (%s, %r) matches no outstanding callback but caused %r'
                             % (ns, pid, block))
            else:
                tok, kind = hit
                self.stat('srv.ack.matched')
                if kind == 'raises':
                    self.stat('srv.ack.matched.callback_raises')
                v.acked.setdefault(ns, set()).add(pid)
                args = list(data) if isinstance(data, list) else None
                if args is None:
                    self.leave(967)
                    return
                if kind == 'call':
                    self.call_args[tok] = args
                    exp = []
                else:
                    exp = [[tok, [canon(x) for x in args]]]
                if got != exp:
                    self.bad('C09.callback_at_most_once', 'ACK (%s, %r): callbacks invoked %r, required %r'
                             % (ns, pid, got, exp))
            for tok, _a in got:
                if tok in self.fired:
                    self.bad('C09.callback_at_most_once', 'callback %r invoked a second time' % (tok,))
                self.fired.add(tok)
        else:
            self.leave(982)

    # ---- one operation
    def step(self, op, rec):
        self.opi += 1
        self.nonconformant = False
        if self.dead:
            self.acc_log.append(None)
            return
        v = self.v
        k = op['op']
        top, blocks, order = split_trace(rec['trace'])
        res = rec['res']
        snap = rec['snap']
        self.strict_before = self.strict()
        self.stat('op.' + k)

        def play(reacts, win, bi=0):
            for e in reacts:
                if bi >= len(blocks):
                    break
                self.strict_before = self.strict()
                self.on_event(e, blocks[bi], win)
                bi += 1
            return bi

        if k == 'ev':
            if op.get('burst'):
                self.stat('op.ev.in_burst')
            if op.get('reent'):
                self.stat('op.ev.ack_with_duplicate_from_inside_callback')
            play([op['e']], False)
            if top:
                self.bad('C08.mirror', 'output outside the event: %r' % (top,))
        elif k == 'connect':
            self.step_connect(op, rec, top, blocks, order)
        elif k in ('emit', 'send', 'call'):
            ns = op['ns'] or '/'
            name = 'message' if k == 'send' else op['ev']
            if res is not None and res[0] == 'exc':
                self.stat('exc.' + res[1])
            connected_ns = v.up and ns in v.acc
            sent = sent_packets(top)
            if not connected_ns:
                self.stat('emit.unconnected')
                if self.strict() and (res != ['exc', 'BadNamespaceError'] or rec['trace']):
                    self.bad('C08.bad_namespace', '%s on %s (not connected): %r, trace %r; required '
                             'BadNamespaceError and nothing sent' % (k, ns, res, rec['trace']))
            else:
                self.stat('emit.connected')
                if res == ['exc', 'BadNamespaceError']:
                    if self.strict():
                        self.bad('C08.bad_namespace', '%s on connected namespace %s raised BadNamespaceError' % (k, ns))
                else:
                    want_data = [name] + pack(op['data'])
                    has_cb = k == 'call' or op.get('cb') is not None
                    good = (len(sent) == 1 and sent[0][0] in (EVENT, BINARY_EVENT) and sent[0][1] == ns
                            and C.same(sent[0][3], want_data))
                    if not good:
                        self.bad('C09.id_unique', '%s(%r) on %s sent %r' % (k, want_data, ns, sent))
                    else:
                        pid = sent[0][2]
                        if has_cb:
                            if pid is None or pid in v.out.get(ns, {}):
                                self.bad('C09.id_unique', 'id %r on %s while outstanding ids are %r'
                                         % (pid, ns, sorted(v.out.get(ns, {}))))
                            else:
                                tok = op['tok'] if k == 'call' else op['cb']['tok']
                                v.out.setdefault(ns, {})[pid] = (tok, 'call' if k == 'call' else
                                                                 'raises' if op['cb'].get('raises') else 'fn')
                                v.ctr[ns] = pid
                                if sum(pid in m for m in v.out.values()) > 1:
                                    self.stat('ids.equal_on_two_namespaces')
                        elif pid is not None:
                            self.bad('C09.id_unique', 'emit without callback carried id %r' % (pid,))
                    play(op['reacts'], False)
                    if k == 'call':
                        tok = op['tok']
                        if tok in self.call_args:
                            a = self.call_args[tok]
                            want = None if len(a) == 0 else a[0] if len(a) == 1 else tuple(a)
                            self.stat('call.returned')
                            if not (res and res[0] == 'ret' and C.same(res[1], want)):
                                self.bad('C09.call_result', 'call() = %r, acknowledged %r' % (res, a))
                        else:
                            self.stat('call.timeout')
                            if res != ['exc', 'TimeoutError']:
                                self.bad('C09.call_result', 'call() = %r without acknowledgement' % (res,))
                    elif res != ['ret', None]:
                        self.bad('C09.call_result', '%s() = %r' % (k, res))
        elif k == 'disconnect':
            if v.up:
                self.stat('end.client_disconnect')
                if v.owed:
                    self.stat('end.mid_binary_packet')
                if any(v.out.values()):
                    self.stat('end.callbacks_outstanding')
                strict = self.strict()
                ended = self.end_connection()
                if strict:
                    self.expect_disconnects(top, ended, W.CLIENT_DISCONNECT)
                self.note_invokes(top)
            elif invokes(top):
                self.bad('C08.disconnect_once', 'disconnect() of a disconnected client invoked %r' % (invokes(top),))
            if res != ['ret', None]:
                self.bad('C08.reset', 'disconnect() = %r' % (res,))
        self.after(op, rec)
        self.prev_snap = snap

    def step_connect(self, op, rec, top, blocks, order):
        v = self.v
        res = rec['res']
        snap = rec['snap']
        self.stat('connect.window.' + op.get('window', '?'))
        if v.up:
            self.stat('connect.already')
            if self.strict() and (res != ['exc', 'ConnectionError'] or rec['trace']):
                self.bad('C08.wait_all', 'connect() on a connected client: %r, trace %r' % (res, rec['trace']))
            return
        nss = op['nss']
        if op['outcome'][0] == 'refuse':
            a = op['outcome'][1]
            arg = a[1] if len(a) > 1 else a[0]
            exp = []
            for n in nss:
                exp += expect_invoke(self.reg, n, 'connect_error', [arg])
            got = invokes(top)
            if op.get('default'):
                # namespaces=None: the list is derived from a set, its order is unspecified
                got, exp = sorted(got, key=repr), sorted(exp, key=repr)
            if res != ['exc', 'ConnectionError'] or got != exp or sent_packets(top):
                self.bad('C08.wait_all', 'refused transport: %r, invocations %r (required %r)' % (res, invokes(top), exp))
            return
        v.up = True
        v.esid = op['outcome'][1]
        v.partial = False
        self.wait = bool(op['wait'])
        # walk through the call: CONNECT packets at top level, reactions in blocks
        auth = op['auth']
        want_auth = auth['val'] or {}
        n_auth = sum(1 for t in top if t[0] == 'auth')
        if n_auth != (1 if auth['callable'] else 0):
            self.bad('C08.connect_sends', 'auth callable invoked %d times' % n_auth)
        sent_top = []
        frames_since = []
        bi = 0
        ri = 0                     # index of the CONNECT whose reactions come next
        pending = []               # reactions still to be matched with blocks, in order
        # reactions of CONNECT i follow the i-th CONNECT frame
        k_sent = 0
        for kind, x in order:
            if kind == 'top':
                if x[0] == 'send':
                    pk = sent_packets([x])
                    if pk and pk[0][0] == CONNECT:
                        if k_sent < len(nss):
                            v.asked.append(pk[0][1])
                            pending = list(op['reacts'][k_sent]) if k_sent < len(op['reacts']) else []
                        k_sent += 1
                        sent_top.append(pk[0])
            else:
                if pending:
                    e = pending.pop(0)
                    self.strict_before = self.strict()
                    self.on_event(e, blocks[x], True)
        connects = [(p[1], p[3]) for p in sent_top]
        want = [(n, want_auth) for n in nss]
        window_dead = not v.up
        if op.get('default'):
            self.stat('connect.namespaces_none')
            both = {h['ns'] for h in self.reg['fns']} & {c['ns'] for c in self.reg['classes']} - {'*'}
            if both:
                self.stat('connect.namespaces_none.fn_and_class_on_one_namespace')
            if nss == ['/'] and not any(h['ns'] == '/' for h in self.reg['fns']) \
                    and not any(c['ns'] == '/' for c in self.reg['classes']):
                self.stat('connect.namespaces_none.fallback_root')
            if nss != derived_namespaces(self.reg):
                self.leave('default namespaces')
                return
        if not window_dead and op.get('default'):
            # one CONNECT per distinct handler namespace, in any order, each carrying the auth
            if sorted(c[0] for c in connects) != sorted(nss) or \
                    not all(C.same(c[1], want_auth) for c in connects):
                self.bad('C08.connect_sends', 'connect(namespaces=None): CONNECT packets %r, required one for each of %r'
                         % (connects, nss))
        elif not window_dead:
            if [c[0] for c in connects] != [w_[0] for w_ in want] or \
                    not all(C.same(c[1], want_auth) for c in connects):
                self.bad('C08.connect_sends', 'CONNECT packets %r, required %r' % (connects, want))
        elif not op.get('default'):
            if [c[0] for c in connects] != nss[:len(connects)]:
                self.bad('C08.connect_sends', 'CONNECT packets %r are not a prefix of %r' % (connects, nss))
        if window_dead:
            # the transport went away inside the window (region F8): judged by `after`
            if op['wait'] and res is not None and res[0] == 'exc':
                self.stat('connect.window_dead.raised')
            return
        if op['wait']:
            all_accepted = not v.asked and not v.partial and set(v.acc) == set(nss)
            if all_accepted:
                self.stat('connect.wait.ok')
                if res != ['ret', None]:
                    self.bad('C08.wait_all', 'every requested namespace was accepted but connect() = %r' % (res,))
            else:
                self.stat('connect.wait.failed' + ('.partial' if v.acc else ''))
                if res != ['exc', 'ConnectionError']:
                    self.bad('C08.wait_all', 'namespaces %r of %r accepted but connect() = %r'
                             % (sorted(v.acc), nss, res))
                clean = (not snap['connected'] and snap['namespaces'] == [] and snap['eio'] == 'disconnected'
                         and snap['callbacks'] == [] and snap['sid'] is None and not snap['binbuf'])
                if not clean:
                    self.bad('C08.failed_connect_clean', 'after the failed connect(): %r' % (snap,))
                self.failed_connect = True
                self.end_connection()
        else:
            self.stat('connect.nowait')
            if res != ['ret', None]:
                self.bad('C08.wait_all', 'connect(wait=False) = %r' % (res,))

    def after(self, op, rec):
        """state clauses, after every operation"""
        v = self.v
        snap = rec['snap']
        self.acc_log.append(None if (self.dead or self.nonconformant) else
                            sorted([k, canon(x)] for k, x in v.acc.items()))
        if self.nonconformant:
            self.dead = True
        if self.dead:
            return
        ns_map = dict((k, v_) for k, v_ in snap['namespaces'])
        # every connect notification of a fully accepted connection is matched by exactly one
        # disconnect notification, unless the namespace is still connected
        if v.partial or self.failed_connect:
            self.balance = False
        if self.balance:
            for ns, (nc, nd) in self.notifs.items():
                if resolve(self.reg, ns, 'connect', []) and resolve(self.reg, ns, 'disconnect', ['r']):
                    if nc - nd != (1 if ns in v.acc else 0):
                        self.bad('C08.disconnect_once', '%s: %d connect and %d disconnect notifications, '
                                 'connected=%r' % (ns, nc, nd, ns in v.acc))
        if not v.up:
            self.notifs = {}
            self.balance = True
            self.failed_connect = False
            clean = (not snap['connected'] and snap['namespaces'] == [] and snap['eio'] == 'disconnected'
                     and snap['callbacks'] == [] and snap['sid'] is None and not snap['binbuf'])
            if not clean:
                self.bad('C08.reset', 'the connection is over but the client holds %r' % (snap,))
            return
        if not self.strict():
            return
        if ns_map != v.acc:
            self.bad('C08.mirror', 'namespaces %r, the server has accepted and not ended %r' % (ns_map, v.acc))
        if not v.asked and not v.partial and snap['connected'] != bool(v.acc):
            self.bad('C08.mirror', 'connected=%r with namespaces %r' % (snap['connected'], sorted(v.acc)))
        if snap['connected'] and snap['eio'] != 'connected':
            self.bad('C08.mirror', 'connected=True on a transport in state %r' % (snap['eio'],))
        out = sorted([ns, i] for ns, m in v.out.items() for i in m)
        if snap['callbacks'] != out:
            self.bad('C09.callback_at_most_once', 'callbacks held %r, outstanding %r' % (snap['callbacks'], out))
        if snap['binbuf'] != (v.owed > 0):
            self.bad('C08.reset', 'partial binary packet held=%r, attachments owed=%d' % (snap['binbuf'], v.owed))


REGION_TEXT = {
    SIG_F8: 'transport lost inside the connect window',
    SIG_F8B: 'server DISCONNECT inside the connect window',
    SIG_F9: "namespace '/' refused after connect(wait=False)",
}


# ------------------------------------------------------------------ cases

def gen_case(rng, mode, profile, n_ops, reconnection=False):
    """Generate a history online (driven by the spec-side view) and execute it on the real client.
    -> (case, recs, oracle)"""
    is_async = mode == 'asyncio'
    reg = gen_registry(rng, is_async)
    orc = Oracle(reg, reconnection=reconnection)
    gen = HistoryGen(rng, is_async, profile, reg, orc.v)
    w = W.ClientWorld(mode, reg, reconnection=reconnection)
    ops, recs = [], []
    def sink(op, rec):
        orc.step(op, rec)
        ops.append(op)
        recs.append(rec)

    try:
        while len(ops) < n_ops:
            run_ops(w, gen.next_ops(), sink)
        if w.n_suspended:
            orc.stats['burst.handlers_suspended_while_next_packet_arrived'] = w.n_suspended
    finally:
        w.close()
    return {'mode': mode, 'registry': reg, 'ops': ops, 'reconnection': reconnection}, recs, orc


def exec_case(case):
    """Re-execute a given history (replay / corpus)."""
    orc = Oracle(case['registry'], reconnection=case.get('reconnection', False))
    w = W.ClientWorld(case['mode'], case['registry'], reconnection=case.get('reconnection', False))
    recs = []
    def sink(op, rec):
        orc.step(op, rec)
        recs.append(rec)

    try:
        run_ops(w, case['ops'], sink)
    finally:
        w.close()
    return recs, orc


# ------------------------------------------------------------------ active handlers (C14: Client ≡ AsyncClient)

ACT_NS = ['/', '/a', '/b']


def gen_act(rng, nss, ev):
    """what a handler does when it is invoked: look at the client (always), and possibly one API call"""
    r = rng.random()
    api = None if r < 0.15 else 'emit' if r < 0.55 else 'send' if r < 0.7 else 'disconnect'
    if ev == 'event' and api == 'disconnect' and rng.random() < 0.5:
        api = 'emit'
    r = rng.random()
    others = [n for n in nss if True]
    target = 'own' if r < 0.55 else rng.choice(others) if r < 0.9 else '/zz'
    return {'api': api, 'target': target, 'reraise': rng.random() < 0.3, 'max': rng.choice([1, 2, 2])}


def gen_active_registry(rng, nss):
    """exact-namespace handlers only (function or class-based per namespace); connect / disconnect /
    connect_error / 'msg' handlers act with probability 0.75; `__disconnect_final` is observed by a passive
    function handler (it is what SimpleClient registers)"""
    fns, classes = [], []
    for ns in nss:
        cls = rng.random() < 0.4
        hs = []
        for ev in ('connect', 'disconnect', 'connect_error', 'msg'):
            h = dict(ev=ev, coro=rng.random() < 0.6, susp=False, legacy=False, ret=('none',) if ev != 'msg' else ('one', 'r'))
            if rng.random() < 0.75:
                h['act'] = gen_act(rng, nss, 'event' if ev == 'msg' else ev)
            hs.append(h)
        if cls:
            classes.append(dict(ns=ns, methods=hs))
        else:
            fns += [dict(ns=ns, **h) for h in hs]
        if not cls or rng.random() < 0.5:
            fns.append(dict(ns=ns, ev='__disconnect_final', coro=rng.random() < 0.5, susp=False, legacy=False,
                            ret=('none',)))
    return {'fns': fns, 'classes': classes}


def gen_active_case(rng):
    """A short life of a client whose handlers are active.  The peer is scripted from the plan alone (what
    the handlers do is not fed back): frames for a transport the client has meanwhile closed deliver nothing.
    -> (case, tags)"""
    nss = rng.sample(ACT_NS, rng.choice([1, 2, 2, 3, 3]))
    reg = gen_active_registry(rng, nss)
    ops, tags = [], []
    nsid = [0]

    def sid():
        nsid[0] += 1
        return 'S%d' % nsid[0]

    for round_ in range(rng.choice([1, 1, 2])):
        r = rng.random()
        wait = rng.random() < 0.7
        live = list(nss)
        auth = {'val': None, 'callable': False, 'coro': False}
        if r < 0.12:
            a = rng.choice([['Connection refused by the server'],
                            ['Unexpected status code 401 in server response', {'message': 'denied'}]])
            ops.append({'op': 'connect', 'nss': list(nss), 'auth': auth, 'wait': wait, 'outcome': ('refuse', a),
                        'reacts': [], 'window': 'refused', 'default': False})
            tags.append('connect.transport_refused')
            continue
        answers = []
        refused = []
        if r < 0.35 and len(nss) >= 2:
            refused = rng.sample(nss, rng.randint(1, len(nss) - 1))
            if not wait and '/' in refused:
                refused = [n for n in refused if n != '/'] or [n for n in nss if n != '/'][:1]   # F9 is C08's
            tags.append('connect.namespace_refused.' + ('wait' if wait else 'nowait'))
        elif r < 0.42:
            refused = list(nss)
            if not wait:
                refused = [n for n in refused if n != '/']
            tags.append('connect.all_refused')
        else:
            tags.append('connect.accepted')
        for n in nss:
            if n in refused:
                answers += srv_frames(CONNECT_ERROR, rng.choice(['no', {'message': 'denied'}, None]), n)
            else:
                answers += srv_frames(CONNECT, {'sid': sid()}, n)
        live = [n for n in nss if n not in refused]
        ops.append({'op': 'connect', 'nss': list(nss), 'auth': auth, 'wait': wait, 'outcome': ('accept', 'E%d' % round_),
                    'reacts': [[] for _ in nss[:-1]] + [answers], 'window': 'all', 'default': False})
        if (wait and refused) or not live:
            if not live and not wait:
                ops.append({'op': 'disconnect'})
            continue
        for _ in range(rng.randint(0, 3)):
            q = rng.random()
            if q < 0.4:
                n = rng.choice(live)
                for e in srv_frames(EVENT, ['msg', rng.randint(0, 9)], n, rng.choice([None, None, 3])):
                    ops.append({'op': 'ev', 'e': e})
                tags.append('event')
            elif q < 0.75 and len(live) >= 2:
                n = rng.choice(live)
                live.remove(n)
                for e in srv_frames(DISCONNECT, None, n):
                    ops.append({'op': 'ev', 'e': e})
                tags.append('server_disconnect.one_of_several')
            else:
                n = rng.choice(live + ['/zz'])
                ops.append({'op': 'emit', 'ev': 'x', 'data': 'd', 'ns': n, 'cb': None, 'reacts': []})
        q = rng.random()
        if q < 0.35:
            for n in list(live):
                for e in srv_frames(DISCONNECT, None, n):
                    ops.append({'op': 'ev', 'e': e})
            tags.append('server_disconnect.last' if len(live) == 1 else 'server_disconnect.all_one_by_one')
        elif q < 0.6:
            ops.append({'op': 'ev', 'e': ('lost',)})
            tags.append('transport_lost')
        elif q < 0.7:
            ops.append({'op': 'ev', 'e': ('close',)})
            tags.append('server_close')
        else:
            ops.append({'op': 'disconnect'})
            tags.append('client_disconnect')
        # afterwards: the API on a client that is down
        if rng.random() < 0.3:
            ops.append({'op': 'emit', 'ev': 'x', 'data': None, 'ns': rng.choice(nss), 'cb': None, 'reacts': []})
    return {'mode': 'threading', 'registry': reg, 'ops': ops, 'reconnection': False, 'active': True}, tags


def exec_plain(case):
    """execute a history on the real client without any oracle -> records"""
    w = W.ClientWorld(case['mode'], case['registry'], reconnection=case.get('reconnection', False))
    recs = []
    try:
        run_ops(w, case['ops'], lambda op, rec: recs.append(rec))
    finally:
        w.close()
    return recs


def parity_diff(case):
    """the same history on Client and AsyncClient -> None | (op index, threaded, asyncio)"""
    out = {}
    for mode in ('threading', 'asyncio'):
        try:
            recs = exec_plain(dict(case, mode=mode))
            out[mode] = [(canon_impl(r), canon_snap_impl(r['snap'])) for r in recs]
        except Exception as ex:   # noqa
            out[mode] = [([['harness', 'execution stopped: %r' % (ex,)]], {})]
    a, b = out['threading'], out['asyncio']
    for j in range(max(len(a), len(b))):
        x = a[j] if j < len(a) else None
        y = b[j] if j < len(b) else None
        if x != y:
            return (j, x, y)
    return None


def shrink_active(case, budget=80):
    """smallest history / least active registry on which the two families still differ"""
    import copy as _copy
    cur = _copy.deepcopy(case)
    d = parity_diff(cur)
    if d is None:
        return case
    cur['ops'] = cur['ops'][:d[0] + 1]
    changed = True
    while changed and budget > 0:
        changed = False
        for i in range(len(cur['ops']) - 1, -1, -1):
            cand = dict(cur, ops=cur['ops'][:i] + cur['ops'][i + 1:])
            budget -= 1
            if cand['ops'] and parity_diff(cand) is not None:
                cur = cand
                changed = True
                break
            if budget <= 0:
                break
        if changed:
            continue
        hs = [h for h in cur['registry']['fns']] + [m for c in cur['registry']['classes'] for m in c['methods']]
        for h in hs:
            if h.get('act') is None:
                continue
            saved = h['act']
            h['act'] = None
            budget -= 1
            if parity_diff(cur) is not None:
                changed = True
                break
            h['act'] = saved
            if budget <= 0:
                break
    return cur


def model_lines(case):
    return [registry_cfg_line(case['registry'], case.get('reconnection', False))] + [op2w(op) for op in case['ops']]


def compare(case, recs, answers, upto=None):
    """-> None or (op index, what, impl, model)"""
    for i, (rec, ans) in enumerate(zip(recs, answers)):
        if upto is not None and i >= upto:
            return None
        op = case['ops'][i]
        a, b = norm_connect_order(op, canon_impl(rec)), norm_connect_order(op, canon_model(ans))
        if a != b:
            return (i, 'trace', a, b)
        sa, sb = canon_snap_impl(rec['snap']), canon_snap_model(ans['q'])
        if sa != sb:
            return (i, 'state', sa, sb)
    return None


def case_json(case):
    j = {'mode': case['mode'], 'registry': enc(case['registry']), 'ops': enc(case['ops']),
         'reconnection': bool(case.get('reconnection', False))}
    if case.get('active'):
        j['active'] = True
    return j


def case_from_json(j):
    reg = dec(j['registry'])
    for hh in reg['fns']:
        hh['ret'] = tuple(hh['ret'])
    for c in reg['classes']:
        for m in c['methods']:
            m['ret'] = tuple(m['ret'])
    ops = dec(j['ops'])
    for op in ops:
        if op['op'] == 'connect':
            op['outcome'] = tuple(op['outcome'])
            op['reacts'] = [[tuple(e) for e in rs] for rs in op['reacts']]
        elif op['op'] in ('emit', 'send', 'call'):
            op['reacts'] = [tuple(e) for e in op['reacts']]
        elif op['op'] == 'ev':
            op['e'] = tuple(op['e'])
    case = {'mode': j['mode'], 'registry': reg, 'ops': ops, 'reconnection': bool(j.get('reconnection', False))}
    if j.get('active'):
        case['active'] = True
    return case


def skeleton(case):
    out = []
    for op in case['ops']:
        if op['op'] == 'connect':
            out.append('C%d%s%s' % (len(op['nss']), 'w' if op['wait'] else 'n', op.get('window', '?')[:2]))
        elif op['op'] == 'ev':
            e = op['e']
            out.append(('~' if op.get('burst') else '') +
                       (e[0][0] if e[0] != 'frame' else ('b' if isinstance(e[1], (bytes, bytearray)) else e[1][:1])))
        else:
            out.append(op['op'][0] + ('r' if op.get('reacts') else ''))
    return ''.join(out)


def run_check(ctx, profile, props, nontrivial_rule, is_nontrivial):
    """Common body of C08 / C09.  `props`: clause prefixes this check owns (failures of the other
    property's clauses found on the way are reported as well — the same kernel carries both)."""
    rng = ctx.rng
    n_cases = ctx.scale(2000, 30000)
    cases, all_recs, oracles = [], [], []
    # corpus first: hand-written and minimised histories (the known-finding scenarios among them)
    import glob
    import os
    for path in sorted(glob.glob(os.path.join(C.ROOT, 'corpus', ctx.prop, '*.json'))):
        with open(path) as f:
            j = json.load(f)
        for mode in ('threading', 'asyncio'):
            case = case_from_json(dict(j['case'], mode=mode))
            recs, orc = exec_case(case)
            cases.append(case)
            all_recs.append(recs)
            oracles.append(orc)
            ctx.count('corpus')
    for i in range(n_cases):
        mode = 'threading' if i % 2 == 0 else 'asyncio'
        n_ops = rng.randint(6, 26)
        recon = rng.random() < (0.35 if profile == 'c08' else 0.15)
        case, recs, orc = gen_case(rng, mode, profile, n_ops, reconnection=recon)
        ctx.count('reconnection.' + ('on_effort_held' if recon else 'off'))
        cases.append(case)
        all_recs.append(recs)
        oracles.append(orc)
    # model, one batch
    lines, spans = [], []
    for case in cases:
        ls = model_lines(case)
        spans.append((len(lines), len(ls)))
        lines += ls
    answers = C.batch('client', lines)
    evals = 0
    nontrivial = set()
    samples = []
    validated = 0
    inside = inside_strict = 0
    for ci, (case, recs, orc) in enumerate(zip(cases, all_recs, oracles)):
        start, n = spans[ci]
        ans = answers[start + 1:start + n]
        evals += len(recs)
        ctx.count('mode.' + case['mode'])
        for k_, n_ in orc.stats.items():
            ctx.count(k_, n_)
        region_at = getattr(orc.v, 'region_at', None)
        diff = compare(case, recs, ans, upto=region_at)
        validated += len(recs) if region_at is None else region_at
        # the Lean spec (hypotheses of the theorems) against the oracle's own view of the server
        lean_out = next((i for i, a in enumerate(ans) if not a['spec']['in']), None)
        py_out = region_at if not orc.dead else getattr(orc, 'dead_opi', region_at)
        if lean_out is None:
            inside += 1
            inside_strict += all(a['spec']['strict'] for a in ans)
        spec_diff = None
        if lean_out != py_out and not orc.dead:
            spec_diff = 'the Lean spec leaves the quantifier at op %r, the oracle at op %r' % (lean_out, py_out)
        else:
            for i, a in enumerate(ans):
                if lean_out is not None and i >= lean_out:
                    break
                sp = a['spec']
                if sp['notes'] != sp['model_notes']:
                    spec_diff = 'op %d: model notifications %r, spec %r' % (i, sp['model_notes'], sp['notes'])
                    break
                la = sorted([C.w2s(k), json.dumps(x)] for k, x in sp['acc'])
                if i < len(orc.acc_log) and orc.acc_log[i] is not None and orc.acc_log[i] != la:
                    spec_diff = 'op %d: accepted map of the Lean spec %r, of the oracle %r' % (i, la, orc.acc_log[i])
                    break
        if spec_diff and not orc.fail:
            ctx.violation('correspondence', 'spec (theorem hypotheses) and oracle bookkeeping differ: ' + spec_diff,
                          {'case_index': ci, 'case': case_json(case)}, no_input=True)
        for sig, text in orc.known.items():
            ctx.known(sig, text)
        if orc.fail:
            clause, text, opi = orc.fail[0]
            small = shrink(case, clause)
            ctx.violation('oracle', '%s violated on the implementation (%s): %s' % (clause, case['mode'], text),
                          {'clause': clause, 'case_index': ci, 'case': case_json(small),
                           'all_failures': [(c_, t_[:300]) for c_, t_, _ in orc.fail[:6]]})
        elif diff is not None:
            i, what, a, b = diff
            ctx.violation('correspondence', 'implementation and model differ at op %d (%s) [%s]'
                          % (i, what, case['mode']),
                          {'case_index': ci, 'op_index': i, 'impl': a, 'model': b, 'case': case_json(case)},
                          no_input=True)
        if is_nontrivial(case, orc):
            nontrivial.add(case['mode'] + skeleton(case))
        if len(samples) < 3 and len(case['ops']) <= 10 and is_nontrivial(case, orc):
            samples.append({'mode': case['mode'], 'skeleton': skeleton(case),
                            'first_ops': [repr(op)[:200] for op in case['ops'][:4]]})
    ctx.coverage.update({
        'evaluations': evals, 'distinct_nontrivial': len(nontrivial), 'rule': nontrivial_rule,
        'samples': samples, 'traces_validated_against_impl': validated, 'cases': len(cases),
        'histories_inside_theorem_hypotheses': inside,
        'histories_inside_strict_hypotheses': inside_strict,
    })
    ctx.assumptions += [
        'engine.io client contract (DESIGN §4): only _connect_polling and _send_packet of the real '
        'engineio.Client/AsyncClient are replaced; messages are delivered inline and in order',
        'wait_timeout / call timeout are not time: the reactions scripted inside the call are what arrives '
        'before the timeout (threading: timeout=0; asyncio: virtual clock)',
        'connect(namespaces=None): the library derives the list from a set (unspecified order); the model is '
        'given the derived list in sorted order, all reactions are scripted after the last CONNECT and the '
        'CONNECT packets of that call are compared as a multiset',
        'reconnection=False (reconnection policy is C10)',
        'concurrent delivery (asyncio): bursts deliver the next packets while coroutine handlers/callbacks of the '
        'earlier ones are suspended on harness-owned futures, released in order; compared with the sequential '
        'model per message (handlers must start in delivery order). The threaded client is driven sequentially '
        '(engine.io one-thread-per-message scheduling is outside these properties, DESIGN §4)',
        'server packets are well-formed (EVENT data is a list starting with a non-reserved str name, ACK data a '
        'list); hostile input is C12',
    ]


def shrink(case, clause, budget=60):
    """Delta-debugging on the operation list: smallest history that still fails the same clause."""
    def fails(ops):
        c2 = {'mode': case['mode'], 'registry': case['registry'], 'ops': ops,
              'reconnection': case.get('reconnection', False)}
        try:
            _recs, orc = exec_case(c2)
        except Exception:   # noqa
            return False
        return any(c == clause for c, _t, _i in orc.fail)

    ops = list(case['ops'])
    if not fails(ops):
        return case
    n = 2
    while len(ops) >= 2 and budget > 0:
        chunk = max(1, len(ops) // n)
        reduced = False
        for i in range(0, len(ops), chunk):
            cand = ops[:i] + ops[i + chunk:]
            budget -= 1
            if cand and fails(cand):
                ops = cand
                n = max(n - 1, 2)
                reduced = True
                break
            if budget <= 0:
                break
        if not reduced:
            if chunk == 1:
                break
            n = min(n * 2, len(ops))
    return {'mode': case['mode'], 'registry': case['registry'], 'ops': ops,
            'reconnection': case.get('reconnection', False)}


def replay_case(ctx, r):
    rp = r.get('replay', r)
    case = case_from_json(rp['case'])
    recs, orc = exec_case(case)
    answers = C.batch('client', model_lines(case))[1:]
    for i, (op, rec, ans) in enumerate(zip(case['ops'], recs, answers)):
        print('op %d: %s' % (i, repr(op)[:300]))
        print('   impl : %s' % (canon_impl(rec),))
        print('   model: %s' % (canon_model(ans),))
        print('   impl state : %s' % (canon_snap_impl(rec['snap']),))
        print('   model state: %s' % (canon_snap_model(ans['q']),))
    print('oracle failures:', orc.fail)
    print('known-finding regions:', orc.known)
    diff = compare(case, recs, answers, upto=getattr(orc.v, 'region_at', None))
    print('correspondence:', 'agree' if diff is None else 'differ at op %d (%s)' % (diff[0], diff[1]))
    return 1 if (orc.fail or diff) else 0
