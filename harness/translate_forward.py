"""ast -> lean/Sio/Generated/Forward.lean: the delegation table of the helper methods of the four
class-based namespace classes (C17), plus the signatures of the methods they delegate to.

Nothing is imported or executed.  For each (class, helper) the method is looked up in the class body
and then in its base classes (as attribute lookup would), its body must be
`[docstring] return [await] self.<server|client>.<method>(<args>)`, and every argument expression
is classified:

    param p      a bare name that is a parameter of the helper
    nsOrSelf     exactly `namespace or self.namespace`
    const src    a literal constant
    opaque src   anything else (the translator does not understand it; never faithful)

The target method is looked up the same way in the class the namespace class is registered with
(Namespace -> Server, AsyncNamespace -> AsyncServer, ClientNamespace -> Client,
AsyncClientNamespace -> AsyncClient).  A helper or target that cannot be found, or a body of
another shape, gives a row with `bodyOk := false` / `targetFound := false` (never faithful) rather
than an error, so that the check can execute the real helper and report what it actually does.
"""
import ast
import os

from .regen import TranslatorError, lean_str, lean_list

SERVER_HELPERS = ['emit', 'send', 'call', 'enter_room', 'leave_room', 'close_room', 'rooms',
                  'get_session', 'save_session', 'session', 'disconnect']
CLIENT_HELPERS = ['emit', 'send', 'call', 'disconnect']

# (namespace class, file, helpers, attribute holding the peer, target class, target file)
CLASSES = [
    ('Namespace', 'namespace.py', SERVER_HELPERS, 'server', 'Server', 'server.py'),
    ('AsyncNamespace', 'async_namespace.py', SERVER_HELPERS, 'server', 'AsyncServer', 'async_server.py'),
    ('ClientNamespace', 'namespace.py', CLIENT_HELPERS, 'client', 'Client', 'client.py'),
    ('AsyncClientNamespace', 'async_namespace.py', CLIENT_HELPERS, 'client', 'AsyncClient',
     'async_client.py'),
]

_cache = {}


def _parse(repo, fname):
    key = (repo, fname)
    if key not in _cache:
        path = os.path.join(repo, 'src', 'socketio', fname)
        try:
            with open(path, encoding='utf-8') as f:
                _cache[key] = ast.parse(f.read(), path)
        except (OSError, SyntaxError) as e:
            raise TranslatorError('cannot parse %s: %s' % (path, e))
    return _cache[key]


def _imports(tree):
    """local module aliases: name -> file (`from . import base_namespace`, `from socketio import x`)"""
    out = {}
    for node in tree.body:
        if isinstance(node, ast.ImportFrom) and (node.level == 1 and node.module is None
                                                 or node.level == 0 and node.module == 'socketio'):
            for a in node.names:
                out[a.asname or a.name] = a.name + '.py'
    return out


def _find_class(tree, name):
    for node in tree.body:
        if isinstance(node, ast.ClassDef) and node.name == name:
            return node
    return None


def find_method(repo, fname, cname, mname, depth=0):
    """-> (FunctionDef | AsyncFunctionDef, 'file:Class') or (None, None); own body first (last
    definition wins), then the bases left to right."""
    if depth > 8 or not os.path.exists(os.path.join(repo, 'src', 'socketio', fname)):
        return None, None
    tree = _parse(repo, fname)
    cls = _find_class(tree, cname)
    if cls is None:
        return None, None
    found = None
    for st in cls.body:
        if isinstance(st, (ast.FunctionDef, ast.AsyncFunctionDef)) and st.name == mname:
            found = st
    if found is not None:
        return found, '%s:%s' % (fname, cname)
    imps = _imports(tree)
    for b in cls.bases:
        if isinstance(b, ast.Attribute) and isinstance(b.value, ast.Name) and b.value.id in imps:
            r = find_method(repo, imps[b.value.id], b.attr, mname, depth + 1)
        elif isinstance(b, ast.Name):
            r = find_method(repo, fname, b.id, mname, depth + 1)
        else:
            continue
        if r[0] is not None:
            return r
    return None, None


def signature(fn):
    """-> ([(name, has_default)], exotic) for the parameters after `self`."""
    a = fn.args
    exotic = bool(a.posonlyargs or a.kwonlyargs or a.vararg or a.kwarg or fn.decorator_list)
    names = [x.arg for x in a.args]
    ndef = len(a.defaults)
    params = [(n, i >= len(names) - ndef) for i, n in enumerate(names)]
    if not params or params[0][0] != 'self':
        return params, True
    return params[1:], exotic


def classify(e, params):
    if isinstance(e, ast.Name) and e.id in params:
        return ('param', e.id)
    if isinstance(e, ast.BoolOp) and isinstance(e.op, ast.Or) and len(e.values) == 2:
        l, r = e.values
        if isinstance(l, ast.Name) and l.id == 'namespace' and 'namespace' in params and \
                isinstance(r, ast.Attribute) and r.attr == 'namespace' and \
                isinstance(r.value, ast.Name) and r.value.id == 'self':
            return ('nsOrSelf', None)
    if isinstance(e, ast.Constant) and not isinstance(e.value, (bytes, type(Ellipsis))):
        return ('const', repr(e.value))
    return ('opaque', ast.unparse(e))


def translate_helper(repo, cname, fname, helper, peer_attr, tcls, tfile):
    row = {'cls': cname, 'helper': helper, 'where': None, 'isAsync': False, 'params': [], 'exotic': False,
           'bodyOk': False, 'returned': False, 'awaited': False, 'targetObj': '', 'targetMethod': '',
           'targetFound': False, 'targetAsync': False, 'targetParams': [], 'targetExotic': False,
           'call': [], 'src': ''}
    fn, where = find_method(repo, fname, cname, helper)
    if fn is None:
        row['src'] = '<helper not found>'
        return row
    row['where'] = where
    row['isAsync'] = isinstance(fn, ast.AsyncFunctionDef)
    row['params'], row['exotic'] = signature(fn)
    pnames = [p for p, _ in row['params']]
    body = list(fn.body)
    if body and isinstance(body[0], ast.Expr) and isinstance(body[0].value, ast.Constant) and \
            isinstance(body[0].value.value, str):
        body = body[1:]
    row['src'] = ' ; '.join(ast.unparse(s) for s in body)
    call = None
    if len(body) == 1 and isinstance(body[0], (ast.Return, ast.Expr)) and body[0].value is not None:
        row['returned'] = isinstance(body[0], ast.Return)
        v = body[0].value
        if isinstance(v, ast.Await):
            row['awaited'] = True
            v = v.value
        if isinstance(v, ast.Call):
            call = v
    if call is not None:
        f = call.func
        if isinstance(f, ast.Attribute) and isinstance(f.value, ast.Attribute) and \
                isinstance(f.value.value, ast.Name) and f.value.value.id == 'self':
            row['bodyOk'] = True
            row['targetObj'] = f.value.attr
            row['targetMethod'] = f.attr
            for i, a in enumerate(call.args):
                if isinstance(a, ast.Starred):
                    row['call'].append((('starArgs', None), ('opaque', ast.unparse(a))))
                else:
                    row['call'].append((('pos', i), classify(a, pnames)))
            for k in call.keywords:
                if k.arg is None:
                    row['call'].append((('starKwargs', None), ('opaque', ast.unparse(k.value))))
                else:
                    row['call'].append((('kw', k.arg), classify(k.value, pnames)))
    # the method of the peer class that the (recognised) call names; by default the same-named one
    tname = row['targetMethod'] if row['bodyOk'] and row['targetObj'] == peer_attr else helper
    tfn, _ = find_method(repo, tfile, tcls, tname)
    if tfn is not None:
        row['targetFound'] = True
        row['targetAsync'] = isinstance(tfn, ast.AsyncFunctionDef)
        row['targetParams'], row['targetExotic'] = signature(tfn)
    return row


def rows(repo):
    _cache.clear()
    out = []
    for cname, fname, helpers, peer, tcls, tfile in CLASSES:
        for h in helpers:
            out.append(translate_helper(repo, cname, fname, h, peer, tcls, tfile))
    return out


def _b(x):
    return 'true' if x else 'false'


def _params(ps):
    return lean_list(['⟨%s, %s⟩' % (lean_str(n), _b(d)) for n, d in ps])


def _binder(b):
    k, v = b
    if k == 'pos':
        return '.pos %d' % v
    if k == 'kw':
        return '.kw %s' % lean_str(v)
    return '.' + k


def _expr(e):
    k, v = e
    if k == 'nsOrSelf':
        return '.nsOrSelf'
    return '.%s %s' % (k, lean_str(v))


def _comment(s):
    return s.replace('-/', '- /').replace('/-', '/ -').replace('\n', ' ')


def generate(repo):
    lines = ['/- GENERATED by harness/translate_forward.py from src/socketio/{namespace,async_namespace,',
             '   base_namespace}.py (helpers) and {server,async_server,base_server,client,async_client,',
             '   base_client}.py (targets).  Regenerated on every check run; do not edit. -/',
             'import Sio.Model.Forward',
             'namespace Sio.Generated',
             'open Sio.Forward', '']
    names = []
    for i, r in enumerate(rows(repo)):
        name = 'row_%s_%s' % (r['cls'], r['helper'])
        names.append(name)
        lines.append('/-- `%s.%s` (%s): `%s` -/' % (r['cls'], r['helper'], r['where'] or 'not found',
                                                    _comment(r['src'])[:400]))
        lines.append('def %s : Row where' % name)
        lines.append('  cls := %s' % lean_str(r['cls']))
        lines.append('  helper := %s' % lean_str(r['helper']))
        lines.append('  isAsync := %s' % _b(r['isAsync']))
        lines.append('  params := %s' % _params(r['params']))
        lines.append('  exotic := %s' % _b(r['exotic']))
        lines.append('  bodyOk := %s' % _b(r['bodyOk']))
        lines.append('  returned := %s' % _b(r['returned']))
        lines.append('  awaited := %s' % _b(r['awaited']))
        lines.append('  targetObj := %s' % lean_str(r['targetObj']))
        lines.append('  targetMethod := %s' % lean_str(r['targetMethod']))
        lines.append('  targetFound := %s' % _b(r['targetFound']))
        lines.append('  targetAsync := %s' % _b(r['targetAsync']))
        lines.append('  targetParams := %s' % _params(r['targetParams']))
        lines.append('  targetExotic := %s' % _b(r['targetExotic']))
        lines.append('  call := %s' % lean_list(['(%s, %s)' % (_binder(b), _expr(e)) for b, e in r['call']]))
        lines.append('')
    lines.append('def forwardTable : List Row :=')
    lines.append('  ' + lean_list(names))
    lines.append('')
    lines.append('end Sio.Generated')
    return '\n'.join(lines) + '\n'
