from .regen import TranslatorError
def generate(repo):
    raise TranslatorError('not yet')
