"""Several REAL socketio servers joined by an in-memory pub/sub channel (properties C07, C15).

Every host is a `world.ServerWorld` (real `socketio.Server` / `AsyncServer` on a real engine.io core,
in-memory transports) whose client manager is a ~15-line subclass of the real `PubSubManager` /
`AsyncPubSubManager`:

  * `_publish(data)` appends `pickle.dumps(data)` to the shared list (messages go through pickle as
    in the bundled backends);
  * `_listen()` is a generator over this host's cursor that yields the entries up to a limit fixed
    when `deliver()` is called and then returns;
  * `deliver(h, k)` calls the REAL `manager._thread()` synchronously: its `for message in
    self._listen()` consumes up to k entries, the generator returns, `_thread` logs "exited
    unexpectedly" and breaks.  An exception that escapes the per-message `try` reaches the outer
    handler and `_listen()` is called again — it continues from the cursor.

`deliver(h, k, quiescent=True)` (asyncio) runs the loop only until nothing is runnable: a listener that waits for
something that can never come is reported ('pending', where it is suspended) instead of blocking the check.

No threads, no tasks left running: `initialize()`'s `start_background_task(self._thread)` is
dropped.  Everything `_thread` logs through `server.logger` is recorded (`PubSubWorld.log`), which
is how contained exceptions are observed.

Interleaving INSIDE one call (`arm()` / `disarm()`): every transport write of every host goes through
`eio.send_packet`, which the world wraps.  An armed `Interference` runs a scripted action once, inside
the n-th write (of the writes whose payload it matches) of whatever call is in progress on that host —
what another thread of a threaded server (the pub/sub listener, a second application thread, the thread
serving another client's request) does between two sends of an emit's fan-out.  The action runs
re-entrantly on the same OS thread: deterministic, no waits.  On the asyncio twin the write is an
`await` (a switching point); while the host's loop is running, nested harness calls drive their
coroutine by hand (`_drive`): nothing in this in-memory world ever suspends, and if something did the
nested call fails loudly instead of blocking.

Lazy initialisation (`PubSubWorld(..., lazy_init=True)`): the world does NOT call `manager.initialize()` and
leaves `server.manager_initialized` alone: the host is initialised by the library itself, in
`_handle_eio_connect` of its first engine.io connection, as in production.  Every listener the library
starts (`server.start_background_task(manager._thread)`) is recorded as a SUBSCRIPTION of its own on the
channel (own cursor, starting at the channel's length at that moment: as with Redis/Kombu every `_listen()`
is a subscription that sees every later message) and `deliver()` drives EVERY subscription of the host: a
host that started two listeners handles every channel message twice, as it would with real threads.
`init_hook(hid, fn, at)` scripts what another thread does while `initialize()` of that host is in progress
(`at`: 'before' / 'after' the base class's `initialize()` body): `fn()` runs once, re-entrantly, inside the first
`initialize()` call on that host — e.g. `open()` of a second transport on the same host = a second first connection
that arrives while the first one is still initialising the manager (threaded servers; on asyncio nothing
can run there: `_handle_eio_connect` has no await between the flag test and the synchronous `initialize()`).
"""
import asyncio
import pickle

from . import common  # noqa: F401
from . import world as W

import socketio


class ListenError(Exception):
    """what a scripted `_listen()` raises"""


class Fatal(BaseException):
    """a BaseException raised by a scripted application callback"""


RAISE = ('__listen_raises__',)       # channel entry: the iterator raises here


class NestedSuspended(BaseException):
    """a nested (in-flight) harness call awaited something that is not ready: a harness limitation"""


def _drive(coro):
    """run a coroutine that never suspends to completion, without an event loop turn"""
    try:
        y = coro.send(None)
    except StopIteration as e:
        return e.value
    coro.close()
    raise NestedSuspended(repr(y))


class Interference:
    """fires `action()` once: at the `after`-th (0-based) packet whose first (text) frame satisfies
    `match` — before its first write ('pre') or after its last one ('post': a packet with binary
    attachments is several writes, and the action is never placed between them: frames of one packet
    interleaved with another thread's packet for the same client is a different matter from the
    one studied here)"""

    def __init__(self, match, after, pos, action):
        self.match = match
        self.after = after
        self.pos = pos
        self.action = action
        self.seen = 0
        self.fired = False
        self.error = None
        self.waiting = None          # [sid, attachments still to be written] of the chosen packet

    def before_write(self, sid, pkt):
        if self.fired or self.waiting is not None:
            return
        data = getattr(pkt, 'data', None)
        if not isinstance(data, str) or not self.match(data):
            return
        n = self.seen
        self.seen += 1
        if n != self.after:
            return
        if self.pos == 'pre':
            self.fire()
            return
        att = 0
        if data[:1] in ('5', '6') and '-' in data:
            head = data[1:data.index('-')]
            att = int(head) if head.isdigit() else 0
        self.waiting = [sid, att]

    def after_write(self, sid, pkt):
        if self.fired or self.waiting is None or self.waiting[0] != sid:
            return
        if self.waiting[1] == 0:
            self.fire()
        else:
            self.waiting[1] -= 1

    def fire(self):
        self.fired = True
        try:
            self.action()
        except BaseException as ex:   # noqa  a harness error must not look like the library's
            self.error = ex


class Channel:
    def __init__(self):
        self.msgs = []               # raw entries: bytes (pickles), or whatever a test appends
        self.published = []          # (host_id, dict) in publication order, for the comparison

    def __len__(self):
        return len(self.msgs)


class _Log:
    """stands in for `server.logger`: records `exception()` / `error()` of the listener"""

    def __init__(self, sink, host):
        self.sink = sink
        self.host = host

    def exception(self, msg, *a, **k):
        import sys
        self.sink.append((self.host, 'exception', str(msg), type(sys.exc_info()[1]).__name__))

    def error(self, msg, *a, **k):
        self.sink.append((self.host, 'error', str(msg), None))

    def warning(self, *a, **k):
        pass

    info = debug = warning

    level = 100

    def setLevel(self, *_a):
        pass

    def addHandler(self, *_a):
        pass


def _hooked_initialize(m, base_initialize):
    """`initialize()` of the in-memory managers: counts the calls; the first one runs the scripted
    `init_hook` (what another thread does meanwhile) before or after the real body"""
    m.init_calls += 1
    hook, m.init_hook = m.init_hook, None

    def fire():
        try:
            hook[1]()
        except BaseException as ex:   # noqa  a harness error must not look like the library's
            m.init_hook_error = ex
    if hook is not None and hook[0] == 'before':
        fire()
    base_initialize()
    if hook is not None and hook[0] != 'before':
        fire()


def _mixin(base, is_async):
    if not is_async:
        class Mem(base):
            def __init__(self, chan, host_id, **kw):
                super().__init__(**kw)
                self.host_id = host_id
                self.chan = chan
                self.cursor = 0
                self.limit = 0
                self.init_calls = 0
                self.init_hook = None        # (at, fn): runs once inside the first initialize()
                self.init_hook_error = None

            def initialize(self):
                _hooked_initialize(self, super().initialize)

            def _publish(self, data):
                self.chan.published.append((self.host_id, data))
                self.chan.msgs.append(pickle.dumps(data))

            def _listen(self):
                while self.cursor < self.limit:
                    m = self.chan.msgs[self.cursor]
                    self.cursor += 1
                    if m is RAISE:
                        raise ListenError()
                    yield m
        return Mem

    class AMem(base):
        def __init__(self, chan, host_id, **kw):
            super().__init__(**kw)
            self.host_id = host_id
            self.chan = chan
            self.cursor = 0
            self.limit = 0
            self.init_calls = 0
            self.init_hook = None
            self.init_hook_error = None

        def initialize(self):
            _hooked_initialize(self, super().initialize)

        async def _publish(self, data):
            self.chan.published.append((self.host_id, data))
            self.chan.msgs.append(pickle.dumps(data))

        async def _listen(self):
            while self.cursor < self.limit:
                m = self.chan.msgs[self.cursor]
                self.cursor += 1
                if m is RAISE:
                    raise ListenError()
                yield m
    return AMem


def manager_class(family):
    if family == 'asyncio':
        from socketio.async_pubsub_manager import AsyncPubSubManager
        return _mixin(AsyncPubSubManager, True)
    from socketio.pubsub_manager import PubSubManager
    return _mixin(PubSubManager, False)


class _Started:
    """what `start_background_task(manager._thread)` returns on a lazily initialised host: the listener
    is not run as a task, `deliver()` drives it"""

    def join(self, timeout=None):
        return None


class PubSubWorld:
    """`n` hosts + one write-only manager on one channel."""

    def __init__(self, family, n_hosts, namespaces=('/',), host_ids=None, wo_id='wo', lazy_init=False):
        self.family = family
        self.lazy = lazy_init
        self.subs = []                # lazy_init: per host, the cursors of the listeners the library started
        self.is_async = family == 'asyncio'
        self.chan = Channel()
        self.log = []
        self.app = []                 # application-level events: ('disc', host, sid, ns) ...
        cls = manager_class(family)
        self.ids = list(host_ids or ['h%d' % i for i in range(n_hosts)])
        self.hosts = []
        self.mgr = []
        self.armed = []               # per host: the Interference waiting for its write, or None
        for hid in self.ids:
            m = cls(self.chan, hid)
            w = W.ServerWorld(family, manager=m, namespaces=list(namespaces), logger=_Log(self.log, hid))
            if lazy_init:
                self.subs.append([])
                self._catch_listeners(w, m, self.subs[-1])
            else:
                m.initialize()             # what the first request would do
                w.sio.manager_initialized = True
                w.background.clear()       # the listener task is never started: deliver() runs it
            for ns in namespaces:
                w.sio.on('disconnect', self._disc_handler(hid), namespace=ns)
            self.hosts.append(w)
            self.mgr.append(m)
            self._wrap_writes(len(self.hosts) - 1, w)
            if self.is_async:
                w.run = self._nesting_run(w)
        self.wo = cls(self.chan, wo_id, write_only=True)
        self.wo_loop = asyncio.new_event_loop() if self.is_async else None
        self.where = {}               # tid -> host index
        self.disc_fault = None        # callable(host, sid, ns) -> exception to raise or None

    # ---- lazy initialisation: the library starts the listeners
    def _catch_listeners(self, w, m, subs):
        orig = w.sio.start_background_task

        def start_background_task(target, *a, **k):
            if target == m._thread:
                subs.append([len(self.chan.msgs)])     # a subscription of its own, from here on
                return _Started()
            return orig(target, *a, **k)
        w.sio.start_background_task = start_background_task

    def init_hook(self, hid, fn, at='after'):
        """run `fn()` once, re-entrantly, inside the first `manager.initialize()` on host `hid`"""
        self.mgr[self.index(hid)].init_hook = (at, fn)

    def init_state(self, hid):
        """-> (initialize() calls, listeners started, server.manager_initialized) of a lazily initialised host;
        an exception of the scripted hook itself is re-raised here"""
        i = self.index(hid)
        m = self.mgr[i]
        if m.init_hook_error is not None:
            raise m.init_hook_error
        return (m.init_calls, len(self.subs[i]), bool(self.hosts[i].sio.manager_initialized))

    # ---- interleaving inside a call
    def _wrap_writes(self, i, w):
        orig = w.eio.send_packet       # `eio.send()` goes through it too
        self.armed.append(None)
        if self.is_async:
            async def send_packet(sid, pkt):
                arm = self.armed[i]
                if arm is not None:
                    arm.before_write(sid, pkt)
                r = await orig(sid, pkt)
                if arm is not None:
                    arm.after_write(sid, pkt)
                return r
        else:
            def send_packet(sid, pkt):
                arm = self.armed[i]
                if arm is not None:
                    arm.before_write(sid, pkt)
                r = orig(sid, pkt)
                if arm is not None:
                    arm.after_write(sid, pkt)
                return r
        w.eio.send_packet = send_packet

    def _await(self, w, r):
        if asyncio.iscoroutine(r):
            if w.loop.is_running():
                return _drive(r)
            return w.loop.run_until_complete(r)
        return r

    def _nesting_run(self, w):
        def run(fn, *a, **k):
            try:
                return ('ok', self._await(w, fn(*a, **k)))
            except Exception as ex:   # noqa
                return ('exc', type(ex).__name__)
        return run

    def arm(self, hid, match, after, pos, action):
        """while a call is in progress on host `hid`: run `action()` inside its `after`-th matching write"""
        self.armed[self.index(hid)] = Interference(match, after, pos, action)

    def disarm(self, hid):
        """-> did it fire?  (an exception of the action itself is re-raised here)"""
        i = self.index(hid)
        arm, self.armed[i] = self.armed[i], None
        if arm is not None and arm.error is not None:
            raise arm.error
        return bool(arm is not None and arm.fired)

    def _disc_handler(self, hid):
        def on_disconnect(sid, reason=None):
            self.app.append(('disc', hid, sid, reason))
            if self.disc_fault is not None:
                ex = self.disc_fault(hid, sid)
                if ex is not None:
                    raise ex
        if self.is_async:
            async def a_on_disconnect(sid, reason=None):
                return on_disconnect(sid, reason)
            return a_on_disconnect
        return on_disconnect

    def index(self, hid):
        return self.ids.index(hid)

    # ---- clients
    def open(self, hid, tid):
        i = self.index(hid)
        self.where[tid] = i
        return self.hosts[i].open(tid)

    def recv(self, tid, data):
        return self.hosts[self.where[tid]].recv(tid, data)

    def sent(self, tid):
        return self.hosts[self.where[tid]].sent(tid)

    def connect(self, hid, tid, ns):
        """CONNECT on a (possibly new) transport; -> the sid the server answered with, or None"""
        if tid not in self.where:
            self.open(hid, tid)
        self.recv(tid, '0' if ns == '/' else '0%s,' % ns)
        sid = None
        rest = []
        for f in self.sent(tid):
            d = W.decode_frames([f]) if not isinstance(f, tuple) else [f]
            if d and isinstance(d[0][0], int) and d[0][0] == 0 and d[0][1] == ns and sid is None:
                sid = d[0][3]['sid']
            else:
                rest.append(f)
        return sid, rest

    # ---- API through one host
    def api(self, hid, name, *a, **k):
        return self.hosts[self.index(hid)].api(name, *a, **k)

    def wo_emit(self, *a, **k):
        try:
            r = self.wo.emit(*a, **k)
            if asyncio.iscoroutine(r):
                r = self.wo_loop.run_until_complete(r)
            return ('ok', r)
        except Exception as ex:   # noqa
            return ('exc', type(ex).__name__)

    # ---- the listener
    def _run_quiescent(self, w, coro):
        """asyncio: run `coro` as a task until it is done or the loop has nothing left to run (no ready callback:
        whatever the task waits for can never arrive in this in-memory world, and timers are never advanced).
        -> ('done', task) | ('pending', where the task is suspended, as text)"""
        import traceback
        loop = w.loop
        task = loop.create_task(coro)
        for _turn in range(100000):
            if task.done() or not loop._ready:
                break
            loop.call_soon(loop.stop)
            loop.run_forever()
        if task.done():
            return ('done', task)
        where = []
        for t in sorted((t for t in asyncio.all_tasks(loop) if not t.done()), key=lambda t: t is not task):
            where.append('task %s%s' % (t.get_coro().__qualname__, ' (the listener)' if t is task else ''))
            c = t.get_coro()
            while c is not None:           # the chain of awaits, outermost first
                fr = getattr(c, 'cr_frame', None) or getattr(c, 'gi_frame', None) or getattr(c, 'ag_frame', None)
                if fr is None:
                    where.append('  waits for %r' % (c,))
                    break
                where.append('  %s:%d in %s' % (fr.f_code.co_filename, fr.f_lineno, fr.f_code.co_name))
                c = getattr(c, 'cr_await', None) or getattr(c, 'gi_yieldfrom', None) or getattr(c, 'ag_await', None)
        pend = [t for t in asyncio.all_tasks(loop) if not t.done()]
        for t in pend:
            t.cancel()
        try:
            loop.run_until_complete(asyncio.gather(*pend, return_exceptions=True))
        except BaseException:   # noqa  (tidying up after a verdict)
            traceback.print_exc()
        return ('pending', '\n'.join(where))

    def deliver(self, hid, k, quiescent=False):
        """-> ('ok', None) | ('exc', class): how `_thread()` ended.  `quiescent=True` (asyncio; for listeners
        that may wait for something that never comes): the loop is run until nothing is runnable instead of
        until the listener returns; -> ('pending', where it is suspended) if it has not finished by then."""
        i = self.index(hid)
        m = self.mgr[i]
        if self.lazy:
            # every listener the library started consumes the channel through its own subscription
            out = ('ok', None)
            for sub in list(self.subs[i]):
                m.cursor = sub[0]
                r = self._deliver_one(i, m, k, quiescent)
                sub[0] = m.cursor
                if out[0] == 'ok':
                    out = r
            return out
        return self._deliver_one(i, m, k, quiescent)

    def _deliver_one(self, i, m, k, quiescent):
        m.limit = min(len(self.chan.msgs), m.cursor + k)
        w = self.hosts[i]
        try:
            if quiescent and self.is_async and not w.loop.is_running():
                how, x = self._run_quiescent(w, m._thread())
                if how == 'pending':
                    return ('pending', x)
                x.result()
                return ('ok', None)
            self._await(w, m._thread())
            return ('ok', None)
        except BaseException as ex:   # noqa  (a scripted Fatal — or SystemExit / KeyboardInterrupt /
            # GeneratorExit / CancelledError escaping a broken listener — ends `_thread`: a verdict,
            # never the end of the check)
            return ('exc', type(ex).__name__)

    def cursors(self):
        return {hid: m.cursor for hid, m in zip(self.ids, self.mgr)}

    def drained(self):
        if self.lazy:
            return all(c[0] == len(self.chan.msgs) for subs in self.subs for c in subs)
        return all(m.cursor == len(self.chan.msgs) for m in self.mgr)

    def close(self):
        for w in self.hosts:
            w.close()
        if self.wo_loop is not None:
            self.wo_loop.close()
