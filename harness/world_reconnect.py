"""Real `socketio.Client` / `AsyncClient` over their real engine.io clients, with a scripted server
and scripted time, for the reconnection policy (C10).

What is REAL: the whole socket.io client (`connect`, `disconnect`, `shutdown`, `_handle_reconnect`,
`_handle_eio_disconnect`, packet handling) and, of engine.io's client, `connect()` (state check,
transport validation, dispatch to `_connect_<transport>`), `disconnect()` (state := 'disconnecting'
around the notification), `_receive_packet` (CLOSE -> disconnect(abort=True, SERVER_DISCONNECT)),
the tail of `_read_loop_polling` (transport error: notification with state still 'connected',
then `_reset()`), `_trigger_event`, `_reset`.  So `eio.state` at the instant of the disconnect
notification - on which the decision depends - is engine.io's own.

What is SCRIPTED (subclass overrides, injected through `_engineio_client_class()`):
`_connect_polling` / `_connect_websocket` (no HTTP: succeed or raise ConnectionError as the script
says), `_send_packet` (hands the packet to the scripted server, which answers each Socket.IO CONNECT
with CONNECT or CONNECT_ERROR inline), `_send_request` (returns None: "the server is gone").

TIME is never wall-clock.  threads: `client._reconnect_abort` is a scripted event whose
`wait(delay)` records the delay and returns at once (parks until the harness thread calls the real
`shutdown()` when the script says "abort during this wait"); `eio.create_event()` gives
non-blocking events (for `_connect_event`); the reconnect task is a real thread that starts when the
harness releases it (after `_handle_eio_disconnect` has returned).  asyncio: a selector loop with a
virtual clock that jumps when idle; real `asyncio.Event`, real `asyncio.wait_for`, observed through
a pass-through proxy bound to the name `asyncio` in `socketio.async_client`.
`random.random` is a scripted sequence bound to the name `random` in the two client modules.
"""
import asyncio
import copy
import logging
import threading
from fractions import Fraction

from . import common  # noqa: F401  (puts the repo on sys.path)

import engineio
from engineio import base_client as eio_base
from engineio import exceptions as eio_exc
from engineio import packet as eio_packet
import socketio
from socketio import base_client as sio_base
from socketio import packet as sio_packet

for _n in ('engineio.client', 'socketio.client', 'engineio', 'socketio'):
    logging.getLogger(_n).setLevel(logging.CRITICAL)

HANG_S = 5           # only to turn a hang (mutant, harness bug) into a report instead of a stuck check
NS_UNIVERSE = ['/', '/a', '/b']
NS_LATE = '/late'      # a handler for it is registered only after connect() (step 'app')
EVENTS = ['connect', 'connect_error', 'disconnect', '__disconnect_final']


class Hang(Exception):
    pass


class _Dummy:
    def join(self, timeout=None):
        return None


class _NonBlockingEvent:
    """`eio.create_event()` for the threaded client: `wait` never blocks (it answers what a wait
    that timed out at once would)."""

    def __init__(self):
        self.flag = False

    def set(self):
        self.flag = True

    def clear(self):
        self.flag = False

    def is_set(self):
        return self.flag

    def wait(self, timeout=None):
        return self.flag


class _RandProxy:
    """bound to the name `random` in socketio.client / socketio.async_client"""

    def __init__(self, real):
        self._real = real
        self.world = None

    def random(self):
        w = self.world
        if w is None:
            return self._real.random()
        return w.next_random()

    def __getattr__(self, n):
        return getattr(self._real, n)


class _AsyncioProxy:
    """bound to the name `asyncio` in socketio.async_client: everything passes through;
    `wait_for` on the abort event's `wait()` is reported to the world first."""

    def __init__(self):
        self.world = None

    def __getattr__(self, n):
        return getattr(asyncio, n)

    async def wait_for(self, aw, timeout):
        w = self.world
        if w is not None:
            fr = getattr(aw, 'cr_frame', None)
            if fr is not None and fr.f_locals.get('self') is w.client._reconnect_abort:
                try:
                    w.on_backoff_wait(timeout)
                except BaseException:
                    aw.close()
                    raise
        return await asyncio.wait_for(aw, timeout)


_rand_proxy = None
_aio_proxy = None


def install():
    """Bind the proxies (idempotent)."""
    global _rand_proxy, _aio_proxy
    import random as _random
    import socketio.client as sc
    import socketio.async_client as sac
    if _rand_proxy is None:
        _rand_proxy = _RandProxy(_random)
        _aio_proxy = _AsyncioProxy()
    sc.random = _rand_proxy
    sac.random = _rand_proxy
    sac.asyncio = _aio_proxy


def uninstall():
    import random as _random
    import socketio.client as sc
    import socketio.async_client as sac
    sc.random = _random
    sac.random = _random
    sac.asyncio = asyncio
    if _rand_proxy is not None:
        _rand_proxy.world = None
        _aio_proxy.world = None


class VirtualLoop(asyncio.SelectorEventLoop):
    """Time is a number that jumps to the next timer when nothing is runnable."""

    def __init__(self):
        super().__init__()
        self._vt = 0.0
        real_select = self._selector.select

        def select(timeout=None):
            ev = real_select(0)
            if ev:
                return ev
            if timeout is None:
                raise Hang('event loop idle for ever (no timer, nothing runnable)')
            if timeout > 0:
                self._vt += timeout
            return []
        self._selector.select = select

    def time(self):
        return self._vt


# ------------------------------------------------------------------------------------------------
class _Bounded(list):
    def append(self, x):
        if len(self) < 40:
            super().append(x)


class BaseWorld:
    """State shared by the two families: the script, the trace, the scripted server."""

    is_async = False

    def __init__(self, cfg):
        self.cfg = cfg
        self.trace = []             # canonical events (same vocabulary as the model's)
        self.eio_attempts = []      # what reached the transport, per eio.connect
        self.connect_calls = []     # (args, kwargs) of every client.connect()
        self.problems = _Bounded()  # things that must never happen (reported as correspondence failures)
        self.efforts_started = 0
        self.efforts_running = 0
        self.max_concurrent = 0
        self.in_list_at_wait = []   # membership in reconnecting_clients, sampled at every back-off wait
        self.sid_n = 0
        # script of the current effort
        self.outs = []
        self.rands = []
        self.rand_i = 0
        self.abort_at = None
        self.abort_mode = 'shutdown'
        self.wait_i = 0
        self.cur_out = None
        self.cur_connects = 0
        self.effort_waits = []      # (index, delay) of the current effort
        self.conn_table = []        # index -> dict of connect kwargs (what the application passed)
        self.conn_pristine = []     # the same, deep-copied when the scenario was built

    # ---- script
    def script(self, outs, rands, abort_at, abort_mode='shutdown'):
        self.outs = list(outs)
        self.rands = list(rands)
        self.rand_i = 0
        self.abort_at = abort_at
        self.abort_mode = abort_mode
        self.wait_i = 0
        self.effort_waits = []

    def next_random(self):
        if self.rand_i < len(self.rands):
            r = self.rands[self.rand_i]
        else:
            r = 0.0
            self.problems.append('random() called more often than scripted')
        self.rand_i += 1
        return r

    def next_outcome(self):
        if self.outs:
            return self.outs.pop(0)
        self.problems.append('eio.connect called more often than scripted')
        return 'T'

    # ---- observation points
    def note_wait(self, delay):
        k = self.wait_i
        self.wait_i += 1
        self.trace.append({'wait': Fraction(delay)})
        self.effort_waits.append(delay)
        self.in_list_at_wait.append(self.client in sio_base.reconnecting_clients)
        return k

    def note_connect_call(self, args, kwargs):
        """client.connect(...) was called: find which stored parameter set it carries."""
        self.connect_calls.append((args, kwargs))
        names = ['url', 'headers', 'auth', 'transports', 'namespaces', 'socketio_path']
        given = dict(zip(names, args))
        given.update(kwargs)
        idx = self.canon_idx(given)
        nss = given.get('namespaces')
        if isinstance(nss, list):
            nss = list(nss)             # as it is NOW (the library may hold and change the same list)
        ev = {'attempt': idx, 'nss_arg': nss, 'retry': given.get('retry', False),
              'eio_from': len(self.eio_attempts)}
        self.trace.append(ev)
        return ev

    def canon_idx(self, given):
        """first parameter set of the table equal to `given` (namespaces apart: they are compared
        on their own); -1 when none is"""
        names = ['url', 'headers', 'auth', 'transports', 'socketio_path']
        for i, p in enumerate(self.conn_pristine):
            if all(_same_param(given.get(n, _DEFAULTS[n]), p.get(n, _DEFAULTS[n])) for n in names):
                return i
        return -1

    def note_handler(self, event, ns, args):
        e = {'h': event, 'ns': ns}
        if event == 'disconnect':
            e['reason'] = args[0] if args else None
        self.trace.append(e)

    def note_spawn(self):
        self.efforts_started += 1
        self.efforts_running += 1
        self.max_concurrent = max(self.max_concurrent, self.efforts_running)
        self.wait_i = 0
        self.effort_waits = []

    def note_effort_end(self):
        self.efforts_running -= 1

    def begin_eio_attempt(self, eio, transport, url, headers, path):
        o = self.next_outcome()
        self.cur_out = o
        self.cur_connects = 0
        rec = {'transport_called': transport, 'url': url, 'headers': copy.deepcopy(headers),
               'transports': list(eio.transports), 'path': path, 'connects': [], 'outcome': o}
        self.eio_attempts.append(rec)
        return o, rec

    def fill_connected(self, eio, url):
        self.sid_n += 1
        eio.sid = 'eio%d' % self.sid_n
        eio.upgrades = []
        eio.ping_interval = 25
        eio.ping_timeout = 20
        eio.current_transport = 'polling'
        eio.base_url = str(url)
        eio.state = 'connected'
        eio_base.connected_clients.append(eio)

    def reaction(self, pkt):
        """The scripted server's reaction to a packet the client sends.  -> list of actions:
        ('msg', text) deliver a Socket.IO packet, ('lose',) end the transport."""
        self.eio_attempts[-1].setdefault('sent', []).append((pkt.packet_type, pkt.data))
        if pkt.packet_type != eio_packet.MESSAGE or not isinstance(pkt.data, str) or pkt.data[:1] != '0':
            return []
        p = sio_packet.Packet(encoded_packet=pkt.data)
        ns = p.namespace or '/'
        i = self.cur_connects
        self.cur_connects += 1
        self.eio_attempts[-1]['connects'].append((ns, copy.deepcopy(p.data)))
        o = self.cur_out
        if o == 'L':
            return [('lose',)] if i == 0 else []
        if isinstance(o, tuple) and o[0] == 'N':
            ok = ns not in o[1]         # ('N', names): these namespaces are refused, whatever their position
        else:
            mask = o[1] if isinstance(o, tuple) else []
            ok = mask[i] if i < len(mask) else True
        if ok:
            self.sid_n += 1
            return [('msg', sio_packet.Packet(sio_packet.CONNECT, data={'sid': 's%d' % self.sid_n},
                                              namespace=ns).encode())]
        return [('msg', sio_packet.Packet(sio_packet.CONNECT_ERROR, data={'message': 'refused'},
                                          namespace=ns).encode())]

    def effort_end_marks(self, final_connected):
        """state after an effort, in the model's vocabulary"""
        if self.client._reconnect_task is None and final_connected:
            self.trace.append('taskCleared')
        if self.client not in sio_base.reconnecting_clients:
            self.trace.append('left')

    def add_params(self, p):
        """`p` is what the application hands to connect(); a deep copy of the plain values is kept
        apart, so that a library that changes a dict / list it was given IN PLACE is still compared
        with what the application passed (callables are compared by identity)"""
        self.conn_table.append(p)
        self.conn_pristine.append({k: (v if callable(v) else copy.deepcopy(v)) for k, v in p.items()})
        return len(self.conn_table) - 1


_DEFAULTS = {'url': None, 'headers': {}, 'auth': None, 'transports': None, 'namespaces': None,
             'socketio_path': 'socket.io'}


def _same_param(a, b):
    if callable(a) or callable(b):
        return a is b
    return type(a) is type(b) and a == b


# ------------------------------------------------------------------------------------------------
class _AbortEvent:
    """`client._reconnect_abort` of the threaded client."""

    def __init__(self, world):
        self.world = world
        self.flag = False
        self.cond = threading.Condition()

    def clear(self):
        with self.cond:
            self.flag = False

    def set(self):
        with self.cond:
            self.flag = True
            self.cond.notify_all()

    def is_set(self):
        return self.flag

    def wait(self, delay=None):
        w = self.world
        k = w.note_wait(delay)
        if k >= len(w.rands) + 2:
            w.problems.append('effort did not end with its script: forced abort at wait %d' % k)
            return True
        if w.abort_at is not None and k == w.abort_at and w.abort_mode == 'preset':
            self.flag = True        # the flag was set just before this wait was entered
            return self.flag
        if w.abort_at is not None and k == w.abort_at:
            # park: the harness thread now calls the real shutdown() (or sets the flag the way the
            # SIGINT handler does); `set()` wakes us
            w.parked.set()
            w.progress.set()
            with self.cond:
                if not self.cond.wait_for(lambda: self.flag, timeout=HANG_S):
                    w.problems.append('abort never arrived')
                    return True
        return self.flag


class _GatedTask:
    """A real thread that starts running its target when released."""

    def __init__(self, world, target, args, kwargs):
        self.world = world
        self.go = threading.Event()
        self.done = threading.Event()
        self.exc = None
        self.skip = False
        self.target, self.args, self.kwargs = target, args, kwargs
        self.t = threading.Thread(target=self._run, daemon=True)
        self.t.start()

    def _run(self):
        self.go.wait()
        try:
            if not self.skip:
                self.target(*self.args, **self.kwargs)
        except BaseException as e:   # noqa
            self.exc = e
        finally:
            self.world.note_effort_end()
            self.done.set()
            self.world.progress.set()

    def join(self, timeout=None):
        # whoever joins a task that the harness has not released yet would, without the gate, be
        # waiting for a running thread: let it run
        if not self.go.is_set():
            if self in self.world.pending:
                self.world.pending.remove(self)
            self.go.set()
        self.t.join(HANG_S if timeout is None else timeout)
        if self.t.is_alive():
            self.world.problems.append('effort hangs (join)')

    def cancel(self):
        self.skip = True
        self.go.set()


class ThreadWorld(BaseWorld):
    is_async = False

    def __init__(self, cfg):
        super().__init__(cfg)
        world = self
        self.pending = []
        self.parked = threading.Event()
        self.progress = threading.Event()

        class Eio(engineio.Client):
            def start_background_task(self, target, *args, **kwargs):
                if getattr(target, '__name__', '') != '_handle_reconnect':
                    world.problems.append('unexpected background task %r' % (target,))
                    return _Dummy()
                world.note_spawn()
                t = _GatedTask(world, target, args, kwargs)
                world.pending.append(t)
                return t

            def create_event(self, *a, **k):
                return _NonBlockingEvent()

            def _connect_polling(self, url, headers, engineio_path):
                return self._scripted('polling', url, headers, engineio_path)

            def _connect_websocket(self, url, headers, engineio_path):
                return self._scripted('websocket', url, headers, engineio_path)

            def _scripted(self, transport, url, headers, engineio_path):
                o, _rec = world.begin_eio_attempt(self, transport, url, headers, engineio_path)
                if o == 'T':
                    self._reset()
                    raise eio_exc.ConnectionError('Connection refused by the server')
                world.fill_connected(self, url)
                self.write_loop_task = _Dummy()
                self.read_loop_task = _Dummy()
                self._trigger_event('connect', run_async=False)

            def _send_packet(self, pkt):
                if self.state != 'connected':
                    return
                for act in world.reaction(pkt):
                    if act[0] == 'msg':
                        self._trigger_event('message', act[1], run_async=False)
                    else:
                        self._read_loop_polling()

            def _send_request(self, *a, **k):
                return None

        class Cli(socketio.Client):
            def _engineio_client_class(self):
                return Eio

            def connect(self, *a, **k):
                ev = world.note_connect_call(a, k)
                try:
                    r = super().connect(*a, **k)
                    ev['result'] = 'ok'
                    return r
                except BaseException as ex:   # noqa
                    ev['result'] = type(ex).__name__
                    raise
                finally:
                    ev['nss_stored'] = list(self.connection_namespaces or [])

            def _handle_eio_disconnect(self, reason):
                st = self.eio.state
                before = world.efforts_started
                r = super()._handle_eio_disconnect(reason)
                world.trace.append({'notified': st, 'start': world.efforts_started > before,
                                    'reason': reason})
                return r

        self.client = Cli(reconnection=cfg['reconnection'], reconnection_attempts=cfg['attempts'],
                          reconnection_delay=cfg['delay'], reconnection_delay_max=cfg['delayMax'],
                          randomization_factor=cfg['rf'], handle_sigint=False)
        self.eio = self.client.eio
        self.client._reconnect_abort = _AbortEvent(self)
        for ns in NS_UNIVERSE:
            for ev in EVENTS:
                self.client.on(ev, self._handler(ev, ns), namespace=ns)
        install()
        _rand_proxy.world = self

    def _handler(self, ev, ns):
        def h(*args):
            self.note_handler(ev, ns, args)
        return h

    # ---- operations (harness thread)
    def connect(self, idx, outcome='S', wait=True):
        p = self.conn_table[idx]
        self.outs = [outcome]
        kw = {k: v for k, v in p.items() if k != 'url'}
        if not wait:
            kw['wait'] = False
        try:
            self.client.connect(p['url'], **kw)
            return 'ok'
        except Exception as ex:     # noqa
            return type(ex).__name__

    def ns_end(self, ns):
        """the server ends ONE namespace: a Socket.IO DISCONNECT packet on the live transport"""
        try:
            self.eio._trigger_event('message', sio_packet.Packet(sio_packet.DISCONNECT, namespace=ns).encode(),
                                    run_async=False)
        except Exception as ex:     # noqa
            self.problems.append('DISCONNECT packet raised %s' % type(ex).__name__)
        return self.drive()

    def app(self, what, ns=None):
        """things the application does on a live connection that do not change what connect() was given"""
        try:
            if what == 'emit':
                self.client.emit('x', {'n': 1}, namespace=ns)
            elif what == 'late_handler':
                self.client.on('connect', self._handler('connect', NS_LATE), namespace=NS_LATE)
            else:
                raise ValueError(what)
        except Exception as ex:     # noqa
            self.problems.append('application call %s raised %s' % (what, type(ex).__name__))

    def lose(self, cause):
        c = self.client
        try:
            if cause == 'transportError':
                self.eio._read_loop_polling()
            elif cause == 'clientDisconnect':
                c.disconnect()
            elif cause == 'serverDisconnect':
                for ns in list(c.namespaces):
                    self.eio._trigger_event(
                        'message', sio_packet.Packet(sio_packet.DISCONNECT, namespace=ns).encode(),
                        run_async=False)
            elif cause == 'serverClose':
                self.eio._receive_packet(eio_packet.Packet(eio_packet.CLOSE))
            else:
                raise ValueError(cause)
        except Exception as ex:     # noqa
            self.problems.append('loss raised %s' % type(ex).__name__)
        return self.drive()

    def drive(self):
        """Run every pending effort to its end; -> list of finals ('ended'/'hang')."""
        finals = []
        while self.pending:
            t = self.pending.pop(0)
            self.parked.clear()
            self.progress.clear()
            t.go.set()
            while True:
                if not self.progress.wait(HANG_S):
                    self.problems.append('effort hangs')
                    finals.append('hang')
                    break
                self.progress.clear()
                if self.parked.is_set() and not t.done.is_set():
                    self.parked.clear()
                    if self.abort_mode == 'shutdown':
                        self.client.shutdown()        # real: set() then join()
                    else:                             # what the SIGINT handler does
                        for cl in sio_base.reconnecting_clients[:]:
                            cl._reconnect_abort.set()
                if t.done.is_set():
                    if t.exc is not None:
                        self.problems.append('effort raised %s: %s' % (type(t.exc).__name__, t.exc))
                    finals.append('ended')
                    break
            t.join()
        return finals

    def shutdown_idle(self):
        try:
            self.client.shutdown()
        except Exception as ex:   # noqa
            self.problems.append('shutdown raised %s' % type(ex).__name__)

    def close(self):
        _rand_proxy.world = None
        for t in self.pending:
            t.cancel()
        self.pending = []
        try:
            if self.eio in eio_base.connected_clients:
                eio_base.connected_clients.remove(self.eio)
            if self.client in sio_base.reconnecting_clients:
                sio_base.reconnecting_clients.remove(self.client)
        except Exception:   # noqa
            pass


# ------------------------------------------------------------------------------------------------
_shared_loop = None


def shared_loop():
    global _shared_loop
    if _shared_loop is None or _shared_loop.is_closed():
        _shared_loop = VirtualLoop()
    return _shared_loop


class AsyncWorld(BaseWorld):
    is_async = True

    def __init__(self, cfg):
        super().__init__(cfg)
        world = self
        self.loop = shared_loop()
        self.tasks = []
        self.all_tasks = []
        self.parked = None

        class Eio(engineio.AsyncClient):
            def start_background_task(self, target, *args, **kwargs):
                if getattr(target, '__name__', '') != '_handle_reconnect':
                    world.problems.append('unexpected background task %r' % (target,))
                world.note_spawn()
                t = super().start_background_task(target, *args, **kwargs)   # real: ensure_future
                t.add_done_callback(lambda _t: world.note_effort_end())
                world.tasks.append(t)
                world.all_tasks.append(t)
                return t

            async def _connect_polling(self, url, headers, engineio_path):
                return await self._scripted('polling', url, headers, engineio_path)

            async def _connect_websocket(self, url, headers, engineio_path):
                return await self._scripted('websocket', url, headers, engineio_path)

            async def _scripted(self, transport, url, headers, engineio_path):
                o, _rec = world.begin_eio_attempt(self, transport, url, headers, engineio_path)
                if o == 'T':
                    await self._reset()
                    raise eio_exc.ConnectionError('Connection refused by the server')
                world.fill_connected(self, url)
                f = world.loop.create_future()
                f.set_result(None)
                self.write_loop_task = f
                self.read_loop_task = f
                await self._trigger_event('connect', run_async=False)

            async def _send_packet(self, pkt):
                if self.state != 'connected':
                    return
                for act in world.reaction(pkt):
                    if act[0] == 'msg':
                        await self._trigger_event('message', act[1], run_async=False)
                    else:
                        await self._read_loop_polling()

            async def _send_request(self, *a, **k):
                return None

        class Cli(socketio.AsyncClient):
            def _engineio_client_class(self):
                return Eio

            async def connect(self, *a, **k):
                ev = world.note_connect_call(a, k)
                try:
                    r = await super().connect(*a, **k)
                    ev['result'] = 'ok'
                    return r
                except BaseException as ex:   # noqa
                    ev['result'] = type(ex).__name__
                    raise
                finally:
                    ev['nss_stored'] = list(self.connection_namespaces or [])

            async def _handle_eio_disconnect(self, reason):
                st = self.eio.state
                before = world.efforts_started
                r = await super()._handle_eio_disconnect(reason)
                world.trace.append({'notified': st, 'start': world.efforts_started > before,
                                    'reason': reason})
                return r

        asyncio.set_event_loop(self.loop)
        self.client = Cli(reconnection=cfg['reconnection'], reconnection_attempts=cfg['attempts'],
                          reconnection_delay=cfg['delay'], reconnection_delay_max=cfg['delayMax'],
                          randomization_factor=cfg['rf'], handle_sigint=False)
        self.eio = self.client.eio
        self.client._reconnect_abort = asyncio.Event()      # real primitive
        for ns in NS_UNIVERSE:
            for ev in EVENTS:
                self.client.on(ev, self._handler(ev, ns, ns != '/a'), namespace=ns)
        install()
        _rand_proxy.world = self
        _aio_proxy.world = self

    def _handler(self, ev, ns, coro):
        if coro:
            async def h(*args):
                self.note_handler(ev, ns, args)
        else:
            def h(*args):
                self.note_handler(ev, ns, args)
        return h

    def on_backoff_wait(self, delay):
        k = self.note_wait(delay)
        if k >= len(self.rands) + 2:
            self.problems.append('effort did not end with its script: forced abort at wait %d' % k)
            self.client._reconnect_abort.set()
            if delay is None or delay <= 0:
                raise Hang('runaway effort')
            return
        if self.abort_at is not None and k == self.abort_at and self.abort_mode == 'preset':
            self.client._reconnect_abort.set()      # the flag is set just before this wait is entered
        elif self.abort_at is not None and k == self.abort_at and self.parked is not None \
                and not self.parked.done():
            self.parked.set_result(k)

    def _run(self, coro):
        return self.loop.run_until_complete(coro)

    def connect(self, idx, outcome='S', wait=True):
        p = self.conn_table[idx]
        self.outs = [outcome]
        kw = {k: v for k, v in p.items() if k != 'url'}
        if not wait:
            kw['wait'] = False

        async def go():
            try:
                await self.client.connect(p['url'], **kw)
                return 'ok'
            except Exception as ex:     # noqa
                return type(ex).__name__
        return self._run(go())

    def ns_end(self, ns):
        async def go():
            try:
                await self.eio._trigger_event(
                    'message', sio_packet.Packet(sio_packet.DISCONNECT, namespace=ns).encode(), run_async=False)
            except Exception as ex:     # noqa
                self.problems.append('DISCONNECT packet raised %s' % type(ex).__name__)
        self._run(go())
        if self.tasks:
            self.problems.append('a reconnection effort was started by the DISCONNECT of one namespace')
        return []

    def app(self, what, ns=None):
        async def go():
            try:
                if what == 'emit':
                    await self.client.emit('x', {'n': 1}, namespace=ns)
                elif what == 'late_handler':
                    self.client.on('connect', self._handler('connect', NS_LATE, True), namespace=NS_LATE)
                else:
                    raise ValueError(what)
            except Exception as ex:     # noqa
                self.problems.append('application call %s raised %s' % (what, type(ex).__name__))
        self._run(go())

    def lose(self, cause):
        c = self.client

        async def go():
            self.parked = self.loop.create_future()
            try:
                if cause == 'transportError':
                    await self.eio._read_loop_polling()
                elif cause == 'clientDisconnect':
                    await c.disconnect()
                elif cause == 'serverDisconnect':
                    for ns in list(c.namespaces):
                        await self.eio._trigger_event(
                            'message', sio_packet.Packet(sio_packet.DISCONNECT, namespace=ns).encode(),
                            run_async=False)
                elif cause == 'serverClose':
                    await self.eio._receive_packet(eio_packet.Packet(eio_packet.CLOSE))
                else:
                    raise ValueError(cause)
            except Exception as ex:     # noqa
                self.problems.append('loss raised %s' % type(ex).__name__)
            finals = []
            while self.tasks:
                t = self.tasks.pop(0)
                done, _p = await asyncio.wait({t, self.parked}, return_when=asyncio.FIRST_COMPLETED)
                if t not in done:
                    # the effort is inside the back-off wait `abort_at`
                    if self.abort_mode == 'shutdown':
                        await c.shutdown()            # real: set() then await the task
                    else:
                        for cl in sio_base.reconnecting_clients[:]:
                            cl._reconnect_abort.set()
                    await asyncio.wait({t})
                if t.cancelled():
                    self.problems.append('effort cancelled')
                elif t.exception() is not None:
                    self.problems.append('effort raised %s: %s' % (type(t.exception()).__name__,
                                                                    t.exception()))
                finals.append('ended')
            return finals
        try:
            return self._run(go())
        except Hang as ex:
            self.problems.append('effort hangs: %s' % ex)
            for t in self.tasks:
                t.cancel()
            self.tasks = []
            return ['hang']

    def shutdown_idle(self):
        async def go():
            try:
                await self.client.shutdown()
            except Exception as ex:   # noqa
                self.problems.append('shutdown raised %s' % type(ex).__name__)
        self._run(go())

    def close(self):
        # nothing of this world may keep running on the shared loop
        left = [t for t in self.all_tasks if not t.done()]
        if left:
            self.problems.append('%d effort(s) still running at the end' % len(left))
            for t in left:
                t.cancel()
            try:
                self.loop.run_until_complete(asyncio.wait(left, timeout=5))
            except Exception:   # noqa
                pass
        _rand_proxy.world = None
        _aio_proxy.world = None
        try:
            if self.eio in eio_base.connected_clients:
                eio_base.connected_clients.remove(self.eio)
            if self.client in sio_base.reconnecting_clients:
                sio_base.reconnecting_clients.remove(self.client)
        except Exception:   # noqa
            pass


def make_world(mode, cfg):
    return AsyncWorld(cfg) if mode == 'asyncio' else ThreadWorld(cfg)
