"""K5 / C04 (asyncio schedules) — the real `socketio.AsyncServer` with controlled suspension.

Every `eio.send_packet` (hence every `eio.send`) and every application connect/disconnect handler
awaits a harness-owned future; every terminating cause is an asyncio task that first awaits a
`start` future.  A *schedule* is the order in which futures are released; between releases the
loop is run to quiescence (no ready callback left) — never wall-clock.  Besides single releases a
schedule may release several `start` futures at once (causes that become runnable in the same loop
iteration): with the code as it is this equals releasing them one after the other, but it is what
exposes a suspension point between `is_connected` and `pre_disconnect` should one ever appear.

`AsyncRun` executes one schedule on a fresh server; the accesses each task makes to the manager /
transport / handler are logged (not suspended), and the log — not the release order — yields the
model schedule: one `Sched.step true` per logged `is_connected`, `send`, handler entry,
`manager.disconnect`.  A CONNECT under observation whose handler refuses is the model's task kind
`refuse` (handler decides, `is_connected`[+`pre_disconnect`], send of the refusal, `manager.disconnect`);
under always_connect the CONNECT packet it sends BEFORE the handler is not a model step.
`run_async_schedules(ctx)` is called by harness/props/c04.py.

`run_residue_schedules(ctx)` (called by harness/props/c11.py) uses the same scheduler for C11: group emits in flight
while the transport of a member (first / middle / last in the iteration order: cfg['emit_order']) is lost, judged at
quiescence by a model-free residue probe (cfg['residue']: `AsyncRun._residue_probe`, `residue_oracle`).
"""
import asyncio
import contextvars
import itertools
import json
import sys

from . import common as C
from .world import ServerWorld, _Quiet, decode_frames

from engineio import exceptions as eio_exceptions
from engineio import packet as eio_packet
import socketio

NS_NAMES = ['/', '/b']
CAUSES = ('client', 'api', 'lost')
MODEL_KIND = {'client': 'clientDisc', 'api': 'api', 'lost': 'lost', 'conn': 'conn'}
REFUSE_ARGS = ('no', {'d': 1})
REASON_KIND = {'server disconnect': 'api', 'client disconnect': 'clientDisc', 'transport close': 'lost'}


class TaskLog(_Quiet):
    def __init__(self, who):
        super().__init__()
        self.who = who
        self.contained = []

    def exception(self, msg, *a, **k):
        self.contained.append((self.who(), str(msg), type(sys.exc_info()[1]).__name__))


SIDE_BASIC = ('bystander_refused', 'bystander_disconnect', 'reconnect', 'event')
# emits by the application to a group that contains the session under test, as their own task; EVERY transport write
# they make (also from tasks the library spawns for them) is a suspension point of its own
SIDE_EMIT = ('room_emit', 'to_emit', 'broadcast_emit', 'callback_emit')
SIDE = SIDE_BASIC + SIDE_EMIT
EMIT_EVENT = 'n'
EMIT_DATA = {'k': 1}
# the harness task on whose behalf a library-spawned task runs (asyncio tasks inherit a copy of the context)
_ORIGIN = contextvars.ContextVar('verif_sched_origin', default=None)


class AsyncRun:
    """cfg = {'causes': [...], 'mode': 'handler'|'send'|'both', 'others': bool, 'conn': bool,
              'side': [...]}   side ⊆ SIDE: operations that are NOT terminating causes of the sid under
    test but run concurrently with them (one asyncio task each, suspended only at its start):
      bystander_refused     another transport's CONNECT to '/' that the connect handler refuses
                            (always_connect=False: manager.connect + manager.disconnect of ANOTHER sid)
      bystander_disconnect  disconnect() of another client of '/'
      reconnect             a CONNECT for '/' repeated on the SAME transport
      event                 an EVENT with an ack id from the same client on '/'
      room_emit / to_emit / broadcast_emit / callback_emit
                            `sio.emit('n', {...}, room='R')` / `to=['R1', 'R2']` / to the whole namespace / to 'R' with a
                            callback, where the addressed group holds, in the manager's iteration order: another client
                            (transport T2), the session under test (T1), and with cfg['emit_after'] a third client (T4).
                            Every `eio.send_packet` made on behalf of that emit — from the emit task or from tasks the
                            library starts for it — is logged when it is ENTERED (= the packet is handed to the transport)
                            and then suspended on a gate of its own (key '<task>><transport>#<n>').
    They are not tasks of the model (they touch no mark / membership of the sid under test:
    `Sio.C04sched.bystander_frame`); what they must do is judged by the oracle."""

    def __init__(self, cfg):
        self.cfg = cfg
        self.side = list(cfg.get('side') or [])
        self.slog = TaskLog(self.idx)
        self.always = bool(cfg.get('always'))
        co = cfg.get('conn')
        self.conn_outcome = None if not co else ('accept' if co is True else co)      # accept | false | refuse
        self.w = w = ServerWorld('asyncio', logger=self.slog, always_connect=self.always)
        self.elog = TaskLog(self.idx)
        w.eio.logger = self.elog
        self.loop = w.loop
        self.fail_write = cfg.get('fail_write')
        self.loop_errors = []      # what asyncio reports about tasks nobody awaited (cfg['fail_write'])
        if self.fail_write is not None:
            self.loop.set_exception_handler(
                lambda loop, c: self.loop_errors.append(type(c.get('exception')).__name__ if c.get('exception') else
                                                        str(c.get('message'))))
        self.task_of = {}
        self.tasks = {}
        self.gates = {}            # task idx -> (kind, ns, future)
        self.events = []           # (task idx, what, ns, result, sid)   what ∈ check mark send handler cleanup snap chandler
        self.calls = []            # (task idx, ns, sid, reason)
        self.connects = []         # (task idx, tid, ns, sid)        connect-handler invocations
        self.ev_calls = []         # (task idx, sid, args)           'ev' handler invocations
        self.expect = {}           # side task -> what the state at its release requires
        self.timeline = []         # ('cleaned', ns, sid) | ('wenter', task, tid, data) | ('wdone', task, tid): emit side tasks
        self.side_idx = {}
        self.cb_calls = []
        self.sched = []
        self.conn_idx = None
        mode = cfg['mode']
        sio = w.sio
        n_causes = len(cfg['causes'])
        self.n_model = n_causes + (1 if cfg.get('conn') else 0)

        def mk(ns):
            async def on_connect(sid, environ):
                self.connects.append((self.idx(), environ.get('verif.tid'), ns, sid))
                if self.conn_idx is not None and self.idx() == self.conn_idx:
                    await self.gate('chandler', ns)
                    # from here to the return nothing suspends: this is the moment the connection is
                    # accepted or refused
                    self.events.append((self.idx(), 'chandler', ns, None, sid))
                    if self.conn_outcome == 'false':
                        return False
                    if self.conn_outcome == 'refuse':
                        raise socketio.exceptions.ConnectionRefusedError(*REFUSE_ARGS)
                if environ.get('verif.tid') == 'T3':
                    return False

            async def on_disconnect(sid, reason):
                i = self.idx()
                self.events.append((i, 'handler', ns, None, sid))
                self.calls.append((i, ns, sid, reason))
                if i is not None and i < n_causes and mode in ('handler', 'both'):
                    await self.gate('handler', ns)
            return on_connect, on_disconnect
        for ns in NS_NAMES:
            c, d = mk(ns)
            sio.on('connect', c, namespace=ns)
            sio.on('disconnect', d, namespace=ns)

        async def on_ev(sid, *args):
            self.ev_calls.append((self.idx(), sid, list(args)))
            return 'ok'
        sio.on('ev', on_ev, namespace='/')

        # transport: gate + log
        real_send_packet = w.eio.send_packet

        async def send_packet(eio_sid, pkt):
            i = self.idx()
            if i is not None and i < self.n_model:
                # (every send of the CONNECT under observation is a suspension point, whatever the mode)
                if mode in ('send', 'both') or i == self.conn_idx:
                    await self.gate('send', None)
                self.events.append((i, 'send', None, None, None))
            elif i is not None and self.side_idx.get(i) in SIDE_EMIT:
                # the packet is handed to the transport now; the transport does not take it before the schedule says so
                nth = sum(1 for e in self.timeline if e[0] == 'wenter' and e[1] == i and e[2] == eio_sid)
                self.timeline.append(('wenter', i, eio_sid, pkt.data))
                await self.gate('write', None, key='%d>%s#%d' % (i, eio_sid, nth))
                if self.fail_write is not None and eio_sid == self.fail_write:
                    # cfg['fail_write']: the transport of this member refuses the packet the way the real engine.io
                    # does for a socket that is closed while its disconnect has not been processed yet
                    self.timeline.append(('wfail', i, eio_sid))
                    raise eio_exceptions.SocketIsClosedError()
                self.timeline.append(('wdone', i, eio_sid))
            return await real_send_packet(eio_sid, pkt)
        w.eio.send_packet = send_packet

        self.emit_kinds = [x for x in self.side if x in SIDE_EMIT]
        # C11 (run_residue_schedules): the object graph of the server with its handlers, before any client
        self.fresh_slots = graph_probe(w.sio).graph_slots() if cfg.get('residue') else None
        emit_order = None
        if self.emit_kinds:
            if cfg.get('conn'):
                raise C.Infra('an emit side task needs the session under test connected from the start')
            # default: the other client comes EARLIER than the session under test in every iteration over the namespace;
            # cfg['emit_order'] puts the session under test (T1) first / in the middle / last
            emit_order = list(cfg.get('emit_order') or (['T2', 'T1'] + (['T4'] if cfg.get('emit_after') else [])))
            for t in emit_order[:emit_order.index('T1')]:
                w.open(t)
                w.recv(t, '0')
        w.open('T1')
        if cfg.get('conn'):
            w.recv('T1', '0/b,')
        else:
            w.recv('T1', '0')
            w.recv('T1', '0/b,')
        if (cfg.get('others') or 'bystander_disconnect' in self.side) and 'T2' not in w.socks:
            w.open('T2')
            w.recv('T2', '0')
        if emit_order:
            for t in emit_order[emit_order.index('T1') + 1:]:
                if t not in w.socks:
                    w.open(t)
                    w.recv(t, '0')
        if 'bystander_refused' in self.side:
            w.open('T3')
        self.mgr = mgr = sio.manager
        sock = w.socks['T1']
        if cfg.get('conn'):
            # a CONNECT for '/' whose application handler is still suspended when the causes arrive
            # (always_connect: it is first suspended in the send of the CONNECT packet)
            self.conn_idx = ci = n_causes
            self._spawn(ci, lambda: sock.receive(eio_packet.Packet(eio_packet.MESSAGE, '0')), gated_start=False)
            self.quiesce()
            if ci not in self.gates or self.gates[ci][0] != ('send' if self.always else 'chandler'):
                raise C.Infra('the CONNECT under observation did not suspend where expected: %r' % (self.gates.get(ci),))
        self.ns_order = [NS_NAMES.index(n) for n in mgr.rooms.keys() if n in NS_NAMES]
        self.sids = [mgr.sid_from_eio_sid('T1', ns) for ns in NS_NAMES]
        self.sid2 = mgr.sid_from_eio_sid('T2', '/') if 'T2' in w.socks else None
        self.emit_args = {}
        if self.emit_kinds:
            order = emit_order
            sid_of = {t: mgr.sid_from_eio_sid(t, '/') for t in order}

            def fill(room, tids):
                for t in tids:
                    if w.run(sio.enter_room, sid_of[t], room)[0] != 'ok':
                        raise C.Infra('enter_room failed in the set-up')
            fill('R', order)
            fill('R1', order[:2])
            fill('R2', order[1:])

            def on_ack(*a):
                self.cb_calls.append(list(a))
            self.emit_args = {'room_emit': {'room': 'R'}, 'to_emit': {'to': ['R1', 'R2']}, 'broadcast_emit': {},
                              'callback_emit': {'room': 'R', 'callback': on_ack}}
            for kind in self.emit_kinds:
                kw = self.emit_args[kind]
                got = [e for _s, e in mgr.get_participants('/', kw.get('to') or kw.get('room'))]
                if got != order:
                    raise C.Infra('set-up: the group addressed by %s iterates as %r, wanted %r' % (kind, got, order))
        w.sent_all()
        self._log_manager()

        def emit_fn(kind):
            return lambda: sio.emit(EMIT_EVENT, dict(EMIT_DATA), **self.emit_args[kind])
        fns = {
            'api': lambda: sio.disconnect(self.sids[0], namespace='/'),
            'client': lambda: sock.receive(eio_packet.Packet(eio_packet.MESSAGE, '1')),
            'lost': lambda: sock.close(wait=False, abort=True, reason=w.eio.reason.TRANSPORT_CLOSE),
            'bystander_refused': lambda: w.socks['T3'].receive(eio_packet.Packet(eio_packet.MESSAGE, '0')),
            'bystander_disconnect': lambda: sio.disconnect(self.sid2, namespace='/'),
            'reconnect': lambda: sock.receive(eio_packet.Packet(eio_packet.MESSAGE, '0')),
            'event': lambda: sock.receive(eio_packet.Packet(eio_packet.MESSAGE, '27["ev",1]')),
        }
        for kind in SIDE_EMIT:
            fns[kind] = emit_fn(kind)
        for i, c in enumerate(cfg['causes']):
            self._spawn(i, fns[c])
        for j, sname in enumerate(self.side):
            self.side_idx[self.n_model + j] = sname
            self._spawn(self.n_model + j, fns[sname], inherit=sname in SIDE_EMIT)
        self.quiesce()

    # ------------------------------------------------------------------ plumbing
    def idx(self):
        try:
            t = asyncio.current_task(self.loop)
        except RuntimeError:
            return None
        i = self.task_of.get(t)
        if i is None and t is not None:
            o = _ORIGIN.get()
            if o is not None and o[0] is self:
                return o[1]         # a task the library started on behalf of harness task o[1]
        return i

    async def gate(self, kind, ns, key=None):
        i = self.idx()
        if i is None:
            return
        f = self.loop.create_future()
        self.gates[i if key is None else key] = (kind, ns, f)
        await f

    def _spawn(self, i, fn, gated_start=True, inherit=False):
        async def body():
            if inherit:
                _ORIGIN.set((self, i))
            if gated_start:
                await self.gate('start', None)
            return await fn()
        t = self.loop.create_task(body())
        self.task_of[t] = i
        self.tasks[i] = t

    def _log_manager(self):
        mgr, ev = self.mgr, self.events
        real_ic, real_pre, real_disc, real_gn = mgr.is_connected, mgr.pre_disconnect, mgr.disconnect, mgr.get_namespaces

        def is_connected(sid, namespace):
            r = real_ic(sid, namespace)
            if self.idx() is not None:
                ev.append((self.idx(), 'check', namespace, r, sid))
            return r

        def pre_disconnect(sid, namespace):
            if self.idx() is not None:
                ev.append((self.idx(), 'mark', namespace, None, sid))
            return real_pre(sid, namespace=namespace)

        async def disconnect(sid, namespace, **kw):
            if self.idx() is not None:
                ev.append((self.idx(), 'cleanup', namespace, None, sid))
            try:
                return await real_disc(sid, namespace, **kw)
            finally:
                self.timeline.append(('cleaned', namespace, sid))

        def get_namespaces():
            r = real_gn()
            if self.idx() is not None:
                ev.append((self.idx(), 'snap', None, list(r), None))
            return r
        mgr.is_connected, mgr.pre_disconnect, mgr.disconnect, mgr.get_namespaces = \
            is_connected, pre_disconnect, disconnect, get_namespaces

    def quiesce(self):
        loop = self.loop
        for _ in range(10000):
            loop.call_soon(loop.stop)
            loop.run_forever()
            if not loop._ready:
                return
        raise C.Infra('the event loop does not reach quiescence')

    # ------------------------------------------------------------------ schedule
    def enabled(self):
        """choices: a task index (release its pending future), the key (a str) of a pending transport write of an
        emit side task, or a tuple of CAUSE indices whose pending futures are all `start` futures (released
        together, in that order)"""
        pend = sorted(self.gates, key=lambda k: (isinstance(k, str), k))       # task gates, then write gates (str keys)
        out = list(pend)
        starts = [i for i in pend if isinstance(i, int) and self.gates[i][0] == 'start' and i < self.n_model]
        for k in range(2, len(starts) + 1):
            for perm in itertools.permutations(starts, k):
                out.append(tuple(perm))
        return out

    def step(self, choice):
        self.sched.append(list(choice) if isinstance(choice, tuple) else choice)
        ids = choice if isinstance(choice, (tuple, list)) else (choice,)
        for i in ids:
            sname = self.side_idx.get(i)
            if sname in ('event', 'reconnect'):
                # released alone, runs without suspension: what it must do follows from the state now
                cur = self.mgr.sid_from_eio_sid('T1', '/')
                self.expect[sname] = {'registered': cur is not None,
                                      'connected': bool(cur is not None and self.mgr.is_connected(cur, '/')),
                                      'sid': cur}
            if sname in SIDE_EMIT:
                kw = self.emit_args[sname]
                cur = self.mgr.sid_from_eio_sid('T1', '/')
                self.expect[sname] = {'members': [e for _s, e in self.mgr.get_participants('/', kw.get('to') or kw.get('room'))],
                                      'session_registered': cur is not None and cur == self.sids[0],
                                      'at': len(self.timeline)}
            kind, ns, f = self.gates.pop(i)
            f.set_result(None)
        self.quiesce()

    # ------------------------------------------------------------------ observation
    def finish(self):
        w, mgr, cfg = self.w, self.mgr, self.cfg
        conn_kind = 'refuse' if self.conn_outcome in ('false', 'refuse') else 'conn'
        kinds = [MODEL_KIND[c] for c in cfg['causes']] + ([conn_kind] if cfg.get('conn') else [])
        n = len(kinds)
        todo = {}
        for i, k in enumerate(kinds):
            todo[i] = list(self.ns_order) if k == 'lost' else [0]

        def foreign(ns, sid):
            # an access about a session other than the one under test (a re-accepted CONNECT's new sid)
            return sid is not None and ns in NS_NAMES and sid != self.sids[NS_NAMES.index(ns)]
        # model schedule from the log (model tasks only; side tasks are not tasks of the model)
        msched, mpcs = [], []
        snap, visited = {}, {i: [] for i in range(n)}
        gate_atomic = True
        open_check = None
        decided = set()        # refusing CONNECTs whose handler has answered
        marks = {}             # ns -> kinds of the tasks that called pre_disconnect for the session under test
        for e in self.events:
            i, what, ns, res, sid = e
            if i is None or i >= n:
                if open_check is not None:
                    gate_atomic = False
                    open_check = None
                continue
            if open_check is not None:
                # the access right after a successful check must be the same task's mark
                if not (i == open_check and what == 'mark'):
                    gate_atomic = False
                open_check = None
            if what == 'snap':
                snap[i] = res
                continue
            if what in ('mark', 'handler', 'cleanup') and foreign(ns, sid):
                continue
            if what == 'mark':
                if ns in NS_NAMES:
                    marks.setdefault(NS_NAMES.index(ns), []).append(kinds[i])
                continue
            if kinds[i] == 'refuse':
                if what == 'chandler':
                    decided.add(i)
                elif what == 'send' and i not in decided:
                    # always_connect: the CONNECT packet goes out before the connect handler runs; the model's
                    # refusing CONNECT starts at the handler
                    continue
            if what == 'check':
                if res is True and not foreign(ns, sid):
                    open_check = i
                if kinds[i] == 'lost':
                    nsn = NS_NAMES.index(ns) if ns in NS_NAMES else None
                    for m in todo[i]:
                        if m == nsn:
                            break
                        if m not in visited[i] and NS_NAMES[m] not in snap.get(i, NS_NAMES):
                            msched.append(i)
                            mpcs.append('check')
                            visited[i].append(m)
                    visited[i].append(nsn)
            msched.append(i)
            mpcs.append(what)
        for i in range(n):
            if kinds[i] == 'lost' and self.tasks[i].done():
                for m in todo[i]:
                    if m not in visited[i]:
                        msched.append(i)
                        mpcs.append('check')
                        visited[i].append(m)
        calls, new_calls, by_calls = {}, {}, []
        for (t, ns, sid, reason) in self.calls:
            k = REASON_KIND.get(reason, str(reason))
            if sid == self.sids[NS_NAMES.index(ns)]:
                calls.setdefault(NS_NAMES.index(ns), []).append(k)
            elif sid == self.sid2:
                by_calls.append(k)
            else:
                new_calls.setdefault(sid, []).append(k)
        raised, unfinished = [], []
        for i in sorted(self.tasks):
            t = self.tasks[i]
            if not t.done():
                unfinished.append(i)
            elif t.exception() is not None:
                raised.append((i, type(t.exception()).__name__))
        for (t, msg, cls) in self.elog.contained:
            raised.append((t, cls))
        swallowed = [(t, cls) for (t, msg, cls) in self.slog.contained]
        residue, connected = {}, {}
        for k, ns in enumerate(NS_NAMES):
            sid = self.sids[k]
            mem = ns in mgr.rooms and any(sid in room for room in mgr.rooms[ns].values())
            pend = list(mgr.pending_disconnect.get(ns, [])).count(sid)
            residue[k] = (mem, pend)
            connected[k] = bool(mgr.is_connected(sid, ns))
        rooms = {k: self.w.run(w.sio.rooms, self.sids[k], NS_NAMES[k])[1] for k in range(len(NS_NAMES))}
        disc, answers, acks, refusal_disc = {}, [], [], []
        t1_frames = decode_frames(w.sent('T1'))
        for f in t1_frames:
            if len(f) != 4:
                continue
            if f[0] == 1 and f[3] is not None:
                refusal_disc.append((f[1], f[3]))      # DISCONNECT carrying a refusal (always_connect)
            elif f[0] == 1:
                disc[NS_NAMES.index(f[1])] = disc.get(NS_NAMES.index(f[1]), 0) + 1
            elif f[0] in (0, 4) and f[1] == '/':
                answers.append((f[0], f[3]))
            elif f[0] == 3:
                acks.append((f[1], f[2], f[3]))
        other_ok = True
        if 'T2' in w.socks:
            s2 = mgr.sid_from_eio_sid('T2', '/')
            other_ok = s2 is not None and bool(mgr.is_connected(s2, '/'))
        side = {}
        if 'bystander_disconnect' in self.side:
            side['bystander_disconnect'] = {'calls': by_calls, 'still_connected': other_ok,
                                            'pending': list(mgr.pending_disconnect.get('/', [])).count(self.sid2)}
            other_ok = True
        if 'bystander_refused' in self.side:
            side['bystander_refused'] = {'frames': [(f[0], f[3]) for f in decode_frames(w.sent('T3')) if len(f) == 4],
                                         'registered': mgr.sid_from_eio_sid('T3', '/') is not None}
        new_state = {}
        if 'reconnect' in self.side:
            ex = self.expect.get('reconnect')
            handlers = [c for c in self.connects if c[0] is not None and self.side_idx.get(c[0]) == 'reconnect']
            new_sid = None
            for (ty, data) in answers:
                if ty == 0 and isinstance(data, dict):
                    new_sid = data.get('sid')
            side['reconnect'] = {'expect': ex, 'answers': answers, 'connect_handler_runs': len(handlers)}
            if new_sid is not None:
                new_state = {'sid': new_sid, 'calls': new_calls.get(new_sid, []),
                             'connected': bool(mgr.is_connected(new_sid, '/')),
                             'member': '/' in mgr.rooms and any(new_sid in room for room in mgr.rooms['/'].values()),
                             'pending': list(mgr.pending_disconnect.get('/', [])).count(new_sid)}
                new_calls.pop(new_sid, None)
        if 'event' in self.side:
            side['event'] = {'expect': self.expect.get('event'), 'handler_runs': [(c[1], c[2]) for c in self.ev_calls],
                             'acks': acks}
        emit = {}
        if self.emit_kinds:
            def n_events(frames):
                return sum(1 for f in frames if len(f) == 4 and f[0] in (2, 5) and f[1] == '/'
                           and isinstance(f[3], list) and f[3][:1] == [EMIT_EVENT])
            delivered = {'T1': n_events(t1_frames)}
            for t in ('T2', 'T4'):
                if t in w.socks:
                    delivered[t] = n_events(decode_frames(w.sent(t)))
            still = {t: bool(mgr.sid_from_eio_sid(t, '/') is not None and mgr.is_connected(mgr.sid_from_eio_sid(t, '/'), '/'))
                     for t in ('T2', 'T4') if t in w.socks}
            for i_, sname in self.side_idx.items():
                if sname not in SIDE_EMIT:
                    continue
                ended = False          # the termination of the session under test (ns '/') has completed
                writes = []
                pending_at_end = None
                for e in self.timeline:
                    if e[0] == 'cleaned' and e[1] == '/' and e[2] == self.sids[0]:
                        if not ended:
                            pending_at_end = [wr['to'] for wr in writes if not wr['taken']]
                        ended = True
                    elif e[0] == 'wenter' and e[1] == i_:
                        writes.append({'to': e[2], 'packet': e[3] if isinstance(e[3], str) else '<binary>',
                                       'session_ended_before': ended, 'taken': False})
                    elif e[0] in ('wdone', 'wfail') and e[1] == i_:
                        for wr in writes:
                            if wr['to'] == e[2] and not wr['taken']:
                                wr['taken'] = True
                                if e[0] == 'wfail':
                                    wr['failed'] = True
                                break
                emit[sname] = {'expect': self.expect.get(sname), 'writes': writes, 'session_ended': ended,
                               'writes_pending_at_end': pending_at_end,
                               'finished': self.tasks[i_].done(),
                               'raised': (type(self.tasks[i_].exception()).__name__
                                          if self.tasks[i_].done() and not self.tasks[i_].cancelled()
                                          and self.tasks[i_].exception() is not None else None),
                               'ack_table_left': self.sids[0] in mgr.callbacks,
                               'callback_runs': len(self.cb_calls)}
            emit['delivered'] = delivered
            emit['others_connected'] = still
            if self.fail_write is not None:
                emit['failing_member'] = self.fail_write
        conn_info = {}
        n_causes_ = len(cfg['causes'])
        if self.conn_idx is not None:
            decided = [k for k, e in enumerate(self.events) if e[0] == self.conn_idx and e[1] == 'chandler']
            d = decided[0] if decided else len(self.events)
            hk = [k for k, e in enumerate(self.events)
                  if e[1] == 'handler' and e[2] == '/' and e[4] == self.sids[0]]
            # a terminating cause "passes the gate" when its is_connected() test of the session succeeds
            gk = [k for k, e in enumerate(self.events)
                  if e[1] == 'check' and e[2] == '/' and e[3] is True and e[4] == self.sids[0]
                  and e[0] is not None and e[0] < n_causes_]
            lost_done_before_handler = (
                not any(c[0] == self.conn_idx for c in self.connects) and 'lost' in cfg['causes'])
            conn_info = {'outcome': self.conn_outcome, 'always_connect': self.always, 'idx': self.conn_idx,
                         'gates_before_decision': sum(1 for k in gk if k < d),
                         'gates_after_decision': sum(1 for k in gk if k > d),
                         'disconnect_calls': len(hk),
                         'connect_handler_runs': sum(1 for c in self.connects if c[0] == self.conn_idx),
                         'lost_before_connect_handler': lost_done_before_handler,
                         'answers': answers, 'refusal_disconnects': refusal_disc}
        obs = {
            'causes': list(cfg['causes']), 'mode': cfg['mode'], 'others': bool(cfg.get('others')),
            'conn_info': conn_info,
            'conn': bool(cfg.get('conn')), 'side_tasks': list(self.side), 'sched': list(self.sched), 'kinds': kinds,
            'todo': [todo[i] for i in range(n)], 'msched': msched, 'mpcs': mpcs, 'marks': marks,
            'calls': dict(sorted(calls.items())), 'raised': sorted(raised, key=str), 'swallowed': swallowed,
            'unfinished': unfinished, 'residue': residue, 'connected': connected,
            'rooms': {k: list(v or []) for k, v in rooms.items()},
            'disc_packets': disc, 'gate_atomic': gate_atomic, 'other_client_ok': other_ok,
            'environ_left': 'T1' in w.sio.environ, 'side': side, 'new_session': new_state, 'emit': emit,
            'stray_calls': {str(k): v for k, v in new_calls.items()},
        }
        if cfg.get('residue'):
            obs['residue_probe'] = self._residue_probe()
        w.close()
        return obs

    def _residue_probe(self):
        """C11, model-free, at quiescence: where the real server still refers to the client whose transport was lost
        (generic walk of the object graph + the per-client tables by name); then every other client's transport ends too
        and the object graph is compared with the one the server had before its first client."""
        w = self.w
        probe = graph_probe(w.sio)
        sids = [x for x in self.sids if x]
        out = {'departed': 'T1', 'session_ids': sids, 'transport_lost': 'lost' in self.cfg['causes'],
               'tasks_unfinished': [i for i in sorted(self.tasks) if not self.tasks[i].done()]}
        # generated session ids are reported as <transport>@<namespace>
        alias = {sid: 'T1@' + NS_NAMES[k] for k, sid in enumerate(self.sids) if sid}
        for ns, rooms in list(self.mgr.rooms.items()):
            for sid, t in list(rooms.get(None, {}).items()):
                alias.setdefault(sid, '%s@%s' % (t, ns))

        def named(d):
            return {k: sorted(alias.get(x, x) for x in v) for k, v in d.items()}
        out['session_ids'] = [alias[x] for x in sids]
        out['mentions'] = probe.mentions('T1', sids)
        out['tables'] = named(named_residue(w.sio, 'T1', sids))
        for t in sorted(w.socks):
            if t != 'T1' and not getattr(w.socks[t], 'closed', False):
                w.lose(t)
        self.quiesce()
        out['growth_after_all_left'] = probe.graph_slots() - self.fresh_slots
        out['tables_after_all_left'] = named(named_residue(w.sio))
        return out


def graph_probe(sio):
    """the generic object-graph walk of harness/server_sim.py (`Runner._walk` / `mentions` / `graph_slots`: names no
    attribute of the library), on any real server — the same walk C11's histories use"""
    from . import server_sim

    class GraphProbe:
        _walk = server_sim.Runner._walk
        mentions = server_sim.Runner.mentions
        graph_slots = server_sim.Runner.graph_slots

        def __init__(self, sio_):
            self.sio = sio_
    return GraphProbe(sio)


def named_residue(sio, tid=None, sids=None):
    """the per-client tables of C11's statement, by name (second opinion next to the generic walk; a table that does not
    exist is skipped): outstanding callbacks, ack counters, pending marks, rooms, environ, binary buffers.
    With tid/sids: the entries that refer to them; without: every entry left."""
    mgr = sio.manager
    want = None if sids is None else set(sids)
    out = {}

    def keep(name, keys):
        keys = [k for k in keys if want is None or k in want or k == tid]
        if keys:
            out[name] = sorted(map(str, keys))
    keep('callbacks', list(getattr(mgr, 'callbacks', {}) or {}))
    keep('ack_counters', list(getattr(mgr, 'ack_counters', {}) or {}))
    keep('pending_disconnect', [x for v in (getattr(mgr, 'pending_disconnect', {}) or {}).values() for x in v])
    keep('rooms', [x for rooms in (getattr(mgr, 'rooms', {}) or {}).values() for room in rooms.values() for x in room])
    keep('rooms(transport)', [x for rooms in (getattr(mgr, 'rooms', {}) or {}).values() for room in rooms.values()
                              for x in room.values()])
    keep('eio_to_sid', list(getattr(mgr, 'eio_to_sid', {}) or {}))
    keep('environ', list(getattr(sio, 'environ', {}) or {}))
    keep('binary_packet', list(getattr(sio, '_binary_packet', {}) or {}))
    return out


def explore(cfg):
    """every maximal schedule (stateless depth-first search; one fresh server per schedule)"""
    stack = []
    while True:
        run = AsyncRun(cfg)
        for en, pos in stack:
            run.step(en[pos])
        while True:
            en = run.enabled()
            if not en:
                break
            stack.append([en, 0])
            run.step(en[0])
        yield run.finish()
        while stack and stack[-1][1] + 1 >= len(stack[-1][0]):
            stack.pop()
        if not stack:
            return
        stack[-1][1] += 1


def random_schedule(cfg, rng):
    run = AsyncRun(cfg)
    while True:
        en = run.enabled()
        if not en:
            break
        run.step(rng.choice(en))
    return run.finish()


def replay_schedule(cfg, sched):
    run = AsyncRun(cfg)
    for ch in sched:
        ch = tuple(ch) if isinstance(ch, list) else ch
        ids = ch if isinstance(ch, tuple) else (ch,)
        if all(i in run.gates for i in ids):
            run.step(ch)
    while run.enabled():
        run.step(run.enabled()[0])
    return run.finish()


def model_line(obs):
    return {'tasks': [{'kind': k, 'ns': t} for k, t in zip(obs['kinds'], obs['todo'])],
            'conn': [0, 1], 'others': [0] if obs['others'] else [], 'sched': obs['msched'], 'atomic': True}


# ---------------------------------------------------------------------------------- verdicts

def targets(obs):
    out = {}
    for k, t in zip(obs['kinds'], obs['todo']):
        if k in ('conn', 'refuse'):
            continue
        for n in t:
            out.setdefault(n, set()).add(k)
    return out


def oracle(obs):
    """the asyncio-schedule clause of C04 on what the implementation did"""
    fails = []
    tg = targets(obs)
    ci = obs.get('conn_info') or {}
    refused = ci.get('outcome') in ('false', 'refuse')
    if ci:
        fails += conn_oracle(obs, ci)
    for n in (0, 1):
        calls = obs['calls'].get(n, [])
        mem, pend = obs['residue'][n]
        if n == 0 and refused and n not in tg:
            tg = dict(tg)
            tg[0] = set()           # the refused connection itself ends the session: no trace may remain
        if n in tg:
            if refused and n == 0:
                pass                # judged by conn_oracle
            elif len(calls) != 1:
                fails.append('disconnect handler ran %d times for the sid of ns %d: %r' % (len(calls), n, calls))
            for k in calls:
                if k not in tg[n]:
                    fails.append('handler reason %r names no cause in progress on ns %d' % (k, n))
            if obs['connected'][n]:
                fails.append('sid of ns %d is still connected afterwards' % n)
            if mem or obs['rooms'][n]:
                fails.append('sid of ns %d is still in a room afterwards: %r' % (n, obs['rooms'][n]))
            if pend:
                fails.append('sid of ns %d is still pending afterwards' % n)
            nd, na = obs['disc_packets'].get(n, 0), calls.count('api')
            if nd > na or (nd < na and 'lost' not in obs['causes']):
                fails.append('DISCONNECT packets on ns %d: %d, handler calls by disconnect(): %d' % (n, nd, na))
        else:
            if calls or not mem or pend or not obs['connected'][n]:
                fails.append('ns %d is targeted by no cause but was affected: calls %r member %r pending %d connected %r'
                             % (n, calls, mem, pend, obs['connected'][n]))
    for (t, cls) in obs['raised']:
        fails.append('task %r raised %s' % (t, cls))
    for (t, cls) in obs['swallowed']:
        fails.append('task %r: _handle_eio_disconnect swallowed %s' % (t, cls))
    if obs['unfinished']:
        fails.append('tasks %r never finished' % (obs['unfinished'],))
    if 'lost' in obs['causes'] and obs['environ_left']:
        fails.append('environ of the lost transport still stored')
    if not obs['other_client_ok']:
        fails.append('the other client of the namespace is no longer connected')
    if obs.get('stray_calls'):
        fails.append('disconnect handler ran for a session id nobody was given: %r' % (obs['stray_calls'],))
    side = obs.get('side') or {}
    if 'bystander_disconnect' in side:
        b = side['bystander_disconnect']
        if b['calls'] != ['api'] or b['still_connected'] or b['pending']:
            fails.append('disconnect() of the other client of the namespace: handler calls %r, still connected %r, pending %d'
                         % (b['calls'], b['still_connected'], b['pending']))
    if 'bystander_refused' in side:
        b = side['bystander_refused']
        if [f[0] for f in b['frames']] != [4] or b['registered']:
            fails.append('refused CONNECT of another transport: frames %r, still registered %r' % (b['frames'], b['registered']))
    if 'reconnect' in side:
        r = side['reconnect']
        ex = r['expect'] or {}
        if ex.get('registered'):
            # the transport's previous session of the namespace is still registered (connected, or being disconnected)
            if [(t, d) for t, d in r['answers']] != [(4, 'Unable to connect')] or r['connect_handler_runs']:
                fails.append('CONNECT repeated while the previous session is still registered: answered %r, connect handler '
                             'ran %d times (required: CONNECT_ERROR "Unable to connect", no handler)'
                             % (r['answers'], r['connect_handler_runs']))
        else:
            if [t for t, d in r['answers']] != [0] or r['connect_handler_runs'] != 1:
                fails.append('CONNECT after the end of the previous session: answered %r, connect handler ran %d times'
                             % (r['answers'], r['connect_handler_runs']))
        ns_ = obs.get('new_session') or {}
        if ns_:
            if len(ns_['calls']) > 1:
                fails.append('disconnect handler ran %d times for the re-accepted session' % len(ns_['calls']))
            if ns_['connected'] and ns_['calls']:
                fails.append('re-accepted session still connected after its disconnect handler ran')
            if not ns_['connected'] and (len(ns_['calls']) != 1 or ns_['member'] or ns_['pending']):
                fails.append('re-accepted session ended with handler calls %r, member %r, pending %d'
                             % (ns_['calls'], ns_['member'], ns_['pending']))
    if 'event' in side:
        e = side['event']
        ex = e['expect'] or {}
        if ex.get('connected'):
            if len(e['handler_runs']) != 1 or [a[1] for a in e['acks']] != [7]:
                fails.append('EVENT from a connected session: handler ran %d times, ACKs %r' % (len(e['handler_runs']), e['acks']))
        else:
            if e['handler_runs'] or e['acks']:
                fails.append('EVENT from a session that is not connected (disconnect in progress or over): handler ran %d '
                             'times, ACKs %r (required: dropped)' % (len(e['handler_runs']), e['acks']))
    fails += emit_oracle(obs)
    return fails


def emit_oracle(obs):
    """An emit to a group that holds the session under test, concurrent with the end of that session.
    (a) once the termination of the session has completed (manager.disconnect ran: the disconnect handler has run
        and the session left every room) no packet of the event is HANDED to the transport for that session any
        more (a write that was entered before and is merely still pending is fine);
    (b) every write goes to a member of the group at the moment of the emit, each member is written to at most once,
        and every OTHER member that stays connected receives the event exactly once;
    (c) the emit finishes, without exception (exceptions: the general clause of `oracle`);
    and no ack table is left behind for the session that ended."""
    em = obs.get('emit') or {}
    fails = []
    n_emits = sum(1 for k in em if k in SIDE_EMIT)
    leaving = set()
    if 'bystander_disconnect' in obs.get('side_tasks', []):
        leaving.add('T2')
    faulty = em.get('failing_member')
    if faulty:
        # the member whose transport refuses the write: nothing is required about what reaches IT
        leaving.add(faulty)
    for kind in SIDE_EMIT:
        e = em.get(kind)
        if not e:
            continue
        ex = e['expect']
        if ex is None:
            fails.append('%s was never released' % kind)
            continue
        per = {}
        for wr in e['writes']:
            per[wr['to']] = per.get(wr['to'], 0) + 1
            if wr['to'] == 'T1' and wr['session_ended_before']:
                fails.append('%s: packet %r was handed to the transport for the session under test AFTER its termination had '
                             'completed (disconnect handler run, every room left)' % (kind, wr['packet']))
            if wr['to'] not in ex['members']:
                fails.append('%s: packet handed to %s, which was not in the addressed group when the emit was issued (%r)'
                             % (kind, wr['to'], ex['members']))
            if not wr['taken']:
                fails.append('%s: the write to %s never completed' % (kind, wr['to']))
        for t, k in per.items():
            if k != 1:
                fails.append('%s: %d packets handed to %s for one single-packet event' % (kind, k, t))
        for t in ex['members']:
            if t != 'T1' and t not in leaving and per.get(t, 0) != 1:
                fails.append('%s: member %s of the addressed group was written to %d times' % (kind, t, per.get(t, 0)))
        if not obs['causes'] and 'T1' in ex['members'] and n_emits == 1:
            # nothing ends the session under test: it is a member like the others
            got = (em.get('delivered') or {}).get('T1', 0)
            if per.get('T1', 0) != 1 or got != 1:
                fails.append('%s: member T1 (connected throughout) was written to %d times and received the event %d times'
                             % (kind, per.get('T1', 0), got))
        if not e['finished']:
            fails.append('%s: the emit never returned' % kind)
        if e.get('raised') and faulty and any(wr.get('failed') for wr in e['writes']):
            fails.append('%s: the failure of the write to ONE recipient (%s) was raised out of emit() to the application: %s'
                         % (kind, faulty, e['raised']))
        if e['session_ended'] and e['ack_table_left']:
            fails.append('%s: an ack-callback table exists for the session id after its end' % kind)
        if n_emits == 1:
            for t, k in (em.get('delivered') or {}).items():
                want = per.get(t, 0)
                if t == 'T1':
                    if k > want:
                        fails.append('%s: %d events reached T1, %d were written' % (kind, k, want))
                elif t not in leaving and k != (1 if t in ex['members'] else 0):
                    fails.append('%s: %s received the event %d times (member of the addressed group: %r)'
                                 % (kind, t, k, t in ex['members']))
    for t, ok in (em.get('others_connected') or {}).items():
        if not ok and t not in leaving:
            fails.append('client %s of the namespace is no longer connected' % t)
    return fails


def refusal_args(outcome):
    from .server_sim import error_args
    return error_args([]) if outcome == 'false' else error_args(list(REFUSE_ARGS))


def conn_oracle(obs, ci):
    """the CONNECT under observation: its connect handler runs once, it is answered exactly once as the handler
    decided.  A REFUSED connection: no terminating cause passes the is_connected gate once the handler has
    refused (the application is never told about the end of a connection it has refused), at most one passed it
    while the handler had not answered yet (then that cause ends the session: its disconnect handler runs once and
    the refusal need not be sent any more), and the disconnect handler ran exactly as often as a cause passed the
    gate."""
    fails = []
    lost = 'lost' in obs['causes']
    n0 = [t for t, d in ci['answers'] if t == 0]
    n4 = [d for t, d in ci['answers'] if t == 4]
    rd = [d for ns, d in ci['refusal_disconnects'] if ns == '/']
    if ci['connect_handler_runs'] != 1:
        fails.append('connect handler ran %d times for one CONNECT' % ci['connect_handler_runs'])
    if ci['outcome'] == 'accept':
        if len(n0) > 1 or n4 or rd or (len(n0) != 1 and not lost):
            fails.append('accepted CONNECT answered by CONNECT x%d, CONNECT_ERROR %r, refusing DISCONNECT %r' % (len(n0), n4, rd))
        return fails
    want = refusal_args(ci['outcome'])
    gb, ga = ci['gates_before_decision'], ci['gates_after_decision']
    if ga:
        fails.append('%d terminating cause(s) found a connection still connected AFTER its connect handler had refused it '
                     '(disconnect handler runs for a refused connection)' % ga)
    if gb > 1:
        fails.append('%d causes passed the gate before the connect handler answered' % gb)
    if ci['disconnect_calls'] != gb + ga:
        fails.append('disconnect handler ran %d times for the refused connection, %d causes passed the gate'
                     % (ci['disconnect_calls'], gb + ga))
    # the refusal must be sent unless the session was already ended by a cause (or the transport is gone)
    need = 0 if (lost or gb) else 1
    if ci['always_connect']:
        if len(n0) > 1 or n4 or len(rd) > 1 or any(not C.same(d, want) for d in rd) or \
                (len(n0) != 1 and not lost) or len(rd) < need:
            fails.append(REFUSAL_UNANSWERED % ('CONNECT then DISCONNECT %r' % (want,), len(n0), n4, rd))
    else:
        if n0 or rd or len(n4) > 1 or any(not C.same(d, want) for d in n4) or len(n4) < need:
            fails.append(REFUSAL_UNANSWERED % ('CONNECT_ERROR %r' % (want,), len(n0), n4, rd))
    return fails


REFUSAL_UNANSWERED = 'refused CONNECT must be answered by exactly one %s: got CONNECT x%d, CONNECT_ERROR %r, refusing DISCONNECT %r'
KNOWN_LOSS_BEFORE_HANDLER = 'always-connect-loss-before-connect-handler'


def known_loss_before_handler(obs, fails):
    """always_connect=True: the transport is lost while the CONNECT packet (sent BEFORE the connect handler under
    always_connect) is suspended in the send: `self.environ[eio_sid]` then raises KeyError (contained by Engine.IO),
    the connect handler never runs although the disconnect handler already ran for that session id."""
    ci = obs.get('conn_info') or {}
    if not (ci and ci['always_connect'] and ci.get('lost_before_connect_handler')):
        return False
    allowed = ('connect handler ran 0 times for one CONNECT', 'task %r raised KeyError' % ci['idx'])
    return bool(fails) and all(f in allowed for f in fails)


PC_OF_EVENT = {'check': 'check', 'send': 'send', 'handler': 'handler', 'cleanup': 'cleanup', 'chandler': 'chandler'}


def correspondence(obs, m):
    diffs = []
    mc = {n: v for n, v in m['calls'] if v}
    if mc != {n: v for n, v in obs['calls'].items() if v}:
        diffs.append('handler calls: impl %r, model %r' % (obs['calls'], mc))
    if sorted(t for t, _ in obs['raised'] if isinstance(t, int)) != sorted(m['raised']):
        diffs.append('raising tasks: impl %r, model %r' % (obs['raised'], m['raised']))
    if len(obs['swallowed']) != m['contained']:
        diffs.append('swallowed exceptions: impl %r, model %d' % (obs['swallowed'], m['contained']))
    mres = {n: (mem, pend) for n, mem, pend in m['residue']}
    if any(tuple(obs['residue'][n]) != tuple(mres.get(n, (False, 0))) for n in (0, 1)):
        diffs.append('residue: impl %r, model %r' % (obs['residue'], mres))
    if not m['allDone']:
        diffs.append('the model is not at quiescence after the mapped schedule: pcs %r' % (m['pcs'],))
    mm = {n: v for n, v in m.get('marks', []) if v}
    if mm != {n: v for n, v in (obs.get('marks') or {}).items() if v}:
        diffs.append('tasks that passed the gate (pre_disconnect): impl %r, model %r' % (obs.get('marks'), mm))
    ci = obs.get('conn_info') or {}
    if 'refuse' in obs['kinds'] and 'lost' not in obs['causes']:
        # refusals on the wire (a lost transport may not show them: judged by the oracle)
        wire = len([d for ns, d in ci['refusal_disconnects'] if ns == '/']) if ci['always_connect'] else \
            len([d for t, d in ci['answers'] if t == 4])
        mr = dict((n, k) for n, k in m.get('refusals', [])).get(0, 0)
        if wire != mr:
            diffs.append('refusals sent for the session: impl %d, model %d' % (wire, mr))
    if not obs['gate_atomic']:
        diffs.append('another access was made between a successful is_connected and the pre_disconnect that follows it: '
                     'the gate is not atomic on the implementation')
    cur = {}
    for j, (i, after) in enumerate(zip(obs['msched'], m['trace'])):
        before = cur.get(i, 'chandler' if obs['kinds'][i] in ('conn', 'refuse') else 'check')
        want = PC_OF_EVENT.get(obs['mpcs'][j])
        if obs['kinds'][i] == 'conn' and want == 'send':
            want = 'csend'
        if want != before and obs['kinds'][i] != 'conn':
            diffs.append('step %d of the mapped schedule: task %d (%s) does %r, the model is at pc %r'
                         % (j, i, obs['kinds'][i], obs['mpcs'][j], before))
            break
        cur[i] = after
    return diffs


def cause_sets(max_n):
    out = []
    for k in range(1, max_n + 1):
        for cs in itertools.combinations_with_replacement(CAUSES, k):
            if cs.count('lost') > 1:
                continue
            out.append(list(cs))
    return out


def run_async_schedules(ctx):
    """decides the asyncio-schedule clause of C04; reports through ctx (coverage keys `sched_*`)"""
    a = C.audit('C04sched')
    cov = ctx.coverage
    cov['sched_obligations'] = a['obligations']
    cov['sched_discharged'] = a['discharged']
    cov['sched_theorems'] = [{'name': n, 'axioms': ax} for n, ax in a['theorems']]
    cov['obligations'] = cov.get('obligations', 0) + a['obligations']
    cov['discharged'] = cov.get('discharged', 0) + a['discharged']
    for pr in a['problems']:
        ctx.violation('proof', pr, {'theorem_or_build': pr}, no_input=True)
    C.build_driver('sched')
    stats = {'runs': 0, 'bursts': 0, 'nontrivial': set(), 'per_config': {}, 'samples': []}

    def judge(cfg, obs, m):
        stats['runs'] += 1
        fails = oracle(obs)
        if fails and known_loss_before_handler(obs, fails):
            # (known finding: the connect handler never runs, the model's task would stay at `chandler`;
            #  this region is judged by the oracle alone)
            stats['known_loss_before_handler'] = stats.get('known_loss_before_handler', 0) + 1
            if 'known_loss_sample' not in stats:
                stats['known_loss_sample'] = {'cfg': cfg, 'sched': obs['sched'], 'oracle': fails}
            return
        diffs = correspondence(obs, m)
        rep = {'kernel': 'sched_async', 'cfg': cfg, 'sched': obs['sched'], 'model_sched': obs['msched'],
               'observed': {k: obs[k] for k in ('calls', 'raised', 'swallowed', 'residue', 'connected', 'rooms',
                                                'disc_packets', 'gate_atomic', 'unfinished', 'side', 'new_session', 'emit')},
               'model': {k: m.get(k) for k in ('calls', 'raised', 'contained', 'residue', 'pcs', 'marks', 'refusals')},
               'oracle': fails, 'correspondence': diffs}
        if fails:
            ctx.violation('oracle', 'asyncio schedule violates the lifecycle property (handler exactly once, no trace, concurrent frames answered as the state requires): %s' % fails, rep)
        elif diffs:
            ctx.violation('correspondence', 'asyncio schedule: model and implementation differ: %s' % diffs, rep, no_input=True)
        if any(isinstance(x, list) for x in obs['sched']):
            stats['bursts'] += 1
        if len(obs['causes']) >= 2:
            flat = [x for x in obs['sched'] if not isinstance(x, list)]
            # non-trivial: a second cause starts before the first one has finished
            stats['nontrivial'].add((json.dumps(cfg, sort_keys=True), json.dumps(obs['sched'])))
        em = obs.get('emit') or {}
        for kind in SIDE_EMIT:
            if kind in em:
                e = em[kind]
                stats['emit_runs'] = stats.get('emit_runs', 0) + 1
                stats['emit_writes'] = stats.get('emit_writes', 0) + len(e['writes'])
                ctx.count('sched_emit:' + kind)
                if e['writes_pending_at_end']:
                    # the window of the property: the session ended while writes of the emit were pending
                    stats['emit_window'] = stats.get('emit_window', 0) + 1
                    if [t for t in e['writes_pending_at_end'] if t != 'T1']:
                        stats['emit_window_other'] = stats.get('emit_window_other', 0) + 1
                    if len(stats.setdefault('emit_samples', [])) < 3 and stats['emit_window'] % 151 == 1:
                        stats['emit_samples'].append({'cfg': cfg, 'sched': obs['sched'], 'writes': e['writes'],
                                                      'pending_when_the_session_ended': e['writes_pending_at_end']})
                if e['expect'] and not e['expect']['session_registered']:
                    stats['emit_after_end'] = stats.get('emit_after_end', 0) + 1
        if len(stats['samples']) < 5 and len(obs['causes']) >= 2 and stats['runs'] % 97 == 1:
            stats['samples'].append({'cfg': cfg, 'sched': obs['sched'], 'calls': obs['calls'], 'model_sched': obs['msched']})

    def run_cfgs(cfgs, sample=None):
        for cfg in cfgs:
            if sample is None:
                obs_all = list(explore(cfg))
            else:
                obs_all = [random_schedule(cfg, ctx.rng) for _ in range(sample)]
            ans = C.batch('sched', [model_line(o) for o in obs_all])
            key = '+'.join(cfg['causes']) + '/' + cfg['mode'] + ('/shared-ns' if cfg['others'] else '') + \
                ('/conn-suspended' if cfg.get('conn') else '') + \
                ('-' + str(cfg['conn']) if cfg.get('conn') in ('false', 'refuse') else '') + \
                ('/always_connect' if cfg.get('always') else '') + \
                ('/side:' + '+'.join(cfg['side']) if cfg.get('side') else '') + \
                ('/third-member-after' if cfg.get('emit_after') else '') + ('/sampled' if sample else '')
            stats['per_config'][key] = len(obs_all)
            ctx.count('sched_causes:' + '+'.join(cfg['causes']), len(obs_all))
            for o, m in zip(obs_all, ans):
                judge(cfg, o, m)

    modes = ('handler', 'send', 'both')
    exhaustive = [{'causes': cs, 'mode': md, 'others': o, 'conn': False}
                  for cs in cause_sets(2) for md in modes for o in (False, True)]
    run_cfgs(exhaustive)
    # side tasks: operations that are not terminating causes of the sid but run between / during them
    def side_ok(cs, sd):
        # frames of the transport itself cannot arrive once it is lost
        return not ('lost' in cs and any(x in ('reconnect', 'event') for x in sd))
    side_cfgs = [{'causes': cs, 'mode': 'both', 'others': False, 'conn': False, 'side': [sd]}
                 for cs in cause_sets(2) for sd in SIDE_BASIC if side_ok(cs, [sd])]
    run_cfgs(side_cfgs)
    # emits to a group that holds the session under test (another member earlier in the iteration order, a third one
    # after it), every transport write of the emit a suspension point of its own: all release orders
    def emit_cfg(cs, kind, mode, after, extra=()):
        return {'causes': cs, 'mode': mode, 'others': False, 'conn': False, 'side': [kind] + list(extra), 'emit_after': after}
    one, two = cause_sets(1), [cs for cs in cause_sets(2) if len(cs) == 2]
    run_cfgs([emit_cfg(cs, k, 'both', True) for cs in one for k in SIDE_EMIT])
    if ctx.thorough:
        run_cfgs([emit_cfg(cs, k, md, af) for cs in one for k in SIDE_EMIT for md in ('handler', 'send') for af in (False, True)])
        run_cfgs([emit_cfg(cs, k, 'both', False) for cs in two for k in SIDE_EMIT])
        run_cfgs([emit_cfg(cs, 'room_emit', 'handler', True) for cs in two])
        run_cfgs([emit_cfg(cs, k, 'both', False, [sd]) for cs in one for k in SIDE_EMIT
                  for sd in ('bystander_disconnect', 'bystander_refused', 'event') if side_ok(cs, [sd])])
    else:
        run_cfgs([emit_cfg(cs, 'room_emit', 'handler', False) for cs in two])
        run_cfgs([emit_cfg(cs, k, 'both', ctx.rng.random() < 0.5) for cs in two for k in SIDE_EMIT if k != 'room_emit'],
                 sample=12)
    stats['side_runs'] = sum(v for k, v in stats['per_config'].items() if '/side:' in k and '_emit' not in k)
    three = [cs for cs in cause_sets(3) if len(cs) == 3]
    if ctx.thorough:
        run_cfgs([{'causes': cs, 'mode': md, 'others': False, 'conn': False, 'side': [sd]}
                  for cs in cause_sets(2) for sd in SIDE_BASIC for md in ('handler', 'send') if side_ok(cs, [sd])])
        run_cfgs([{'causes': cs, 'mode': 'both', 'others': False, 'conn': False, 'side': [sd]}
                  for cs in three for sd in SIDE_BASIC if side_ok(cs, [sd])])
        run_cfgs([{'causes': cs, 'mode': 'both', 'others': False, 'conn': False, 'side': list(sds)}
                  for cs in cause_sets(2) for sds in itertools.combinations(SIDE_BASIC, 2) if side_ok(cs, sds)])
        stats['side_runs'] = sum(v for k, v in stats['per_config'].items() if '/side:' in k and '_emit' not in k)
    if ctx.thorough:
        run_cfgs([{'causes': cs, 'mode': md, 'others': o, 'conn': False}
                  for cs in three for md in modes for o in (False, True)])
        run_cfgs([{'causes': cs, 'mode': md, 'others': o, 'conn': True}
                  for cs in cause_sets(3) for md in modes for o in (False, True)])
    else:
        # the three distinct causes together: all orders; the other triples and the suspended connect handler: sampled
        run_cfgs([{'causes': ['client', 'api', 'lost'], 'mode': 'both', 'others': False, 'conn': False}])
        run_cfgs([{'causes': cs, 'mode': 'both', 'others': False, 'conn': False} for cs in three
                  if cs != ['client', 'api', 'lost']], sample=30)
        run_cfgs([{'causes': cs, 'mode': 'both', 'others': False, 'conn': True} for cs in cause_sets(2)
                  if len(cs) == 2], sample=25)
    # a CONNECT whose handler REFUSES (returns False / raises ConnectionRefusedError) while terminating causes for the
    # session it registered arrive: before the decision, after it, during the send of the refusal; both always_connect
    refusing = [{'causes': cs, 'mode': 'both', 'others': o, 'conn': co, 'always': al}
                for al in (False, True) for co in ('false', 'refuse') for o in (False, True)
                for cs in cause_sets(1)]
    run_cfgs(refusing)
    run_cfgs([{'causes': cs, 'mode': 'both', 'others': False, 'conn': True, 'always': True} for cs in cause_sets(1)])
    pairs = [{'causes': cs, 'mode': 'both', 'others': False, 'conn': co, 'always': al}
             for al in (False, True) for co in ('false', 'refuse') for cs in cause_sets(2) if len(cs) == 2]
    if ctx.thorough:
        run_cfgs(pairs)
    else:
        run_cfgs(pairs, sample=12)
    stats['refusal_runs'] = sum(v for k, v in stats['per_config'].items() if '-false' in k or '-refuse' in k)
    if stats.get('known_loss_before_handler'):
        smp = stats['known_loss_sample']
        ctx.known(KNOWN_LOSS_BEFORE_HANDLER, 'AsyncServer(always_connect=True): %d schedules in which the transport is lost '
                  'while the CONNECT packet is suspended in the send, before the connect handler is invoked: %s; e.g. %s schedule %s'
                  % (stats['known_loss_before_handler'], smp['oracle'], smp['cfg'], smp['sched']))
    cov['sched_refused_connect_schedules'] = stats['refusal_runs']
    cov['sched_refused_connect_rule'] = ('every refused-CONNECT schedule runs on the model too (task kind `refuse`): handler calls, '
                                         'gate passes, refusals on the wire, residue, quiescence, per-step pcs compared; except the '
                                         'known-finding region ' + KNOWN_LOSS_BEFORE_HANDLER + ' (oracle only)')
    cov['sched_evaluations'] = stats['runs']
    cov['sched_exhaustive'] = True
    cov['sched_exhaustive_scope'] = (
        'all release orders (incl. simultaneous starts) of <=2 concurrent causes from {client DISCONNECT, disconnect(), '
        'transport loss} x suspension in handler / in send / in both x sole member / shared namespace'
        + ('; all release orders of 3 causes; plus a connect handler still suspended when up to 3 causes arrive'
           if ctx.thorough else '; all release orders of the three distinct causes together; other triples and the '
           'suspended-connect-handler task sampled'))
    cov['sched_simultaneous_start_schedules'] = stats['bursts']
    cov['sched_side_task_schedules'] = stats.get('side_runs', 0)
    cov['sched_side_tasks'] = ('concurrent non-terminating operations, all release orders with <=2 causes (3 in thorough): refused '
                               'CONNECT of another transport on the namespace, disconnect() of another client of the namespace, '
                               'CONNECT repeated on the same transport, EVENT with ack id from the same client')
    cov['sched_room_emit_schedules'] = stats.get('emit_runs', 0)
    cov['sched_room_emit_writes_gated'] = stats.get('emit_writes', 0)
    cov['sched_room_emit_session_ended_while_writes_pending'] = stats.get('emit_window', 0)
    cov['sched_room_emit_session_ended_while_write_to_another_member_pending'] = stats.get('emit_window_other', 0)
    cov['sched_room_emit_issued_after_the_end'] = stats.get('emit_after_end', 0)
    cov['sched_room_emit_samples'] = stats.get('emit_samples', [])
    cov['sched_room_emit_rule'] = (
        'emit to room R / to=[R1, R2] / whole namespace / room with callback, the addressed group iterating as [another client, '
        'the session under test, (a third client)], as its own task concurrent with 1 cause (all release orders, suspension in '
        'handler and send, 3 members) and 2 causes (' + ('all release orders' if ctx.thorough else
        'room emit: all release orders with suspension in the handler; the other kinds sampled') + '); every eio.send_packet '
        'made for the emit (from the emit task or tasks the library starts for it) is logged at entry and suspended on its own '
        'gate. Oracle only (not a model task: Sio.C04sched.bystander_frame): no packet handed to the transport for the session '
        'after its manager.disconnect completed; every write to a member of the group at the time of the emit, at most one per '
        'member; every other member receives the event exactly once; the emit returns without exception; no ack table left')
    cov['sched_distinct_nontrivial'] = len(stats['nontrivial'])
    cov['sched_rule'] = 'non-trivial = schedule of >=2 concurrent causes on one sid; every schedule runs on a fresh real AsyncServer and on Sched.run true'
    cov['sched_schedules_per_config'] = stats['per_config']
    cov['sched_samples'] = stats['samples']
    cov['evaluations'] = cov.get('evaluations', 0) + stats['runs']
    cov['traces_validated_against_impl'] = cov.get('traces_validated_against_impl', 0) + stats['runs']
    ctx.assumptions.append('asyncio: suspension only at `await`s that reach the event loop; the harness suspends every transport '
                           'send and every application connect/disconnect handler and observes that nothing runs between '
                           'is_connected and pre_disconnect (checked per schedule)')
    return stats


# ---------------------------------------------------------------------------------- C11: residue after in-flight emits

EMIT_POSITIONS = {'first': ['T1', 'T2', 'T4'], 'middle': ['T2', 'T1', 'T4'], 'last': ['T2', 'T4', 'T1']}


def residue_oracle(obs):
    """C11 on what the real AsyncServer holds at quiescence (every suspended write / handler released, every task over):
    nothing refers to the client whose transport was lost — whatever operation was in flight when its clean-up ran —
    and once every client has gone the server is indistinguishable from the one that had not seen a client yet."""
    p = obs.get('residue_probe') or {}
    fails = []
    who = 'the departed client (transport %s, session ids %s)' % (p.get('departed'), p.get('session_ids'))
    if p.get('tasks_unfinished'):
        fails.append('tasks %r never finished: no quiescence, the residue cannot be judged' % (p['tasks_unfinished'],))
    if p.get('transport_lost'):
        if p.get('mentions'):
            fails.append('after the loss of its transport and quiescence the server still refers to %s in %s'
                         % (who, p['mentions']))
        if p.get('tables'):
            fails.append('per-client tables still hold entries for %s: %r' % (who, p['tables']))
    if p.get('growth_after_all_left') or p.get('tables_after_all_left'):
        fails.append('every client is gone but the server differs from the freshly started one: its object graph grew by %r '
                     'container slots; tables left: %r' % (p.get('growth_after_all_left'), p.get('tables_after_all_left')))
    return fails


def run_residue_schedules(ctx):
    """C11 under concurrency: an emit to a group (room / list of rooms / namespace / room with callback) is in flight —
    every transport write it makes suspended on a gate of its own — while the transport of one member is LOST (alone, or
    together with a client DISCONNECT / disconnect() of the same session); the departed member first, in the middle, last
    in the iteration order of the group.  After quiescence the model-free residue probe (`AsyncRun._residue_probe`) is
    judged by `residue_oracle`.  Oracle only.  Reports through ctx (coverage keys `residue_*`)."""
    st = {'runs': 0, 'window': 0, 'late': 0, 'per_config': {}, 'samples': [], 'fails': 0}

    def cfg_of(causes, kind, pos, mode):
        return {'causes': list(causes), 'mode': mode, 'others': False, 'conn': False, 'side': [kind],
                'emit_order': list(pos if isinstance(pos, list) else EMIT_POSITIONS[pos]), 'residue': True}

    def midway(cfg, obs):
        """emit-free schedules: was the transport lost while another terminating cause of the same session was
        suspended midway (released before the loss started, released again after that)?"""
        li = cfg['causes'].index('lost')
        flat = [x for ch in obs['sched'] for x in (ch if isinstance(ch, list) else [ch])]
        if li not in flat:
            return False
        at = flat.index(li)
        return any(i in flat[:at] and i in flat[at + 1:] for i in range(len(cfg['causes'])) if i != li)

    def judge(cfg, obs):
        st['runs'] += 1
        e = ((obs.get('emit') or {}).get(cfg['side'][0]) or {}) if cfg.get('side') else {}
        if not cfg.get('side'):
            st['causes_only'] = st.get('causes_only', 0) + 1
            if midway(cfg, obs):
                st['causes_only_midway'] = st.get('causes_only_midway', 0) + 1
        if e.get('writes_pending_at_end'):
            st['window'] += 1           # the session ended while writes of the emit were still pending
        if any(wr['session_ended_before'] for wr in e.get('writes') or []):
            st['late'] += 1
        fails = residue_oracle(obs)
        if fails and st['fails'] < 3:
            st['fails'] += 1
            ctx.violation('oracle', 'asyncio schedule (%s) leaves state for a client that is gone: %s' % (
                              'an emit in flight while a member\'s transport is lost' if cfg.get('side') else
                              'concurrent terminating causes %s of one session, the loss of its transport among them, '
                              'suspended in %s, %s' % ('+'.join(cfg['causes']), cfg['mode'],
                                                       'another client on the namespace' if cfg['others'] else
                                                       'sole client of its namespaces'), fails),
                          {'kernel': 'sched_residue', 'cfg': cfg, 'sched': obs['sched'], 'oracle': fails,
                           'residue_probe': obs['residue_probe'], 'emit': obs.get('emit')})
        if len(st['samples']) < 3 and e.get('writes_pending_at_end') and st['window'] % 211 == 1:
            st['samples'].append({'cfg': cfg, 'sched': obs['sched'], 'writes_pending_when_the_session_ended':
                                  e['writes_pending_at_end'], 'residue_probe': obs['residue_probe']})

    def run_cfgs(cfgs, sample=None):
        for cfg in cfgs:
            if st['fails'] >= 3:
                return
            it = explore(cfg) if sample is None else (random_schedule(cfg, ctx.rng) for _ in range(sample))
            n = 0
            for obs in it:
                n += 1
                judge(cfg, obs)
                if st['fails'] >= 3:
                    break
            if cfg.get('side'):
                pos = [k for k, v in EMIT_POSITIONS.items() if v == cfg['emit_order']]
                key = '+'.join(cfg['causes']) + '/' + cfg['mode'] + '/' + cfg['side'][0] + '/departed-' + \
                    (pos[0] if pos else 'in-' + '-'.join(cfg['emit_order'])) + ('/sampled' if sample else '')
            else:
                key = '+'.join(cfg['causes']) + '/' + cfg['mode'] + '/no-emit' + \
                    ('/shared-ns' if cfg['others'] else '/sole-member') + ('/sampled' if sample else '')
            st['per_config'][key] = st['per_config'].get(key, 0) + n
            ctx.count('residue_sched:' + (cfg['side'][0] if cfg.get('side') else 'causes_only'), n)
            ctx.count('residue_sched_causes:' + '+'.join(cfg['causes']), n)

    two = [['client', 'lost'], ['api', 'lost']]
    positions = list(EMIT_POSITIONS)
    # one cause: every release order
    run_cfgs([cfg_of(['lost'], k, pos, 'both') for k in SIDE_EMIT for pos in positions])
    if ctx.thorough:
        run_cfgs([cfg_of(['lost'], k, pos, md) for k in SIDE_EMIT for pos in positions for md in ('handler', 'send')])
        run_cfgs([cfg_of(cs, 'callback_emit', pos, 'both') for cs in two for pos in positions])
        run_cfgs([cfg_of(cs, k, order, 'both') for cs in two for k in SIDE_EMIT if k != 'callback_emit'
                  for order in (['T1', 'T2'], ['T2', 'T1'])])
    else:
        run_cfgs([cfg_of(cs, 'callback_emit', pos, 'both') for cs in two for pos in positions], sample=20)
        run_cfgs([cfg_of(cs, k, ctx.rng.choice(positions), 'both') for cs in two for k in SIDE_EMIT if k != 'callback_emit'],
                 sample=10)
    # no emit at all: two (thorough: three) terminating causes of ONE session -- always the loss of its transport among
    # them, so that the client is gone at the end -- suspended in the disconnect handler / in the send / in both, the
    # session the sole member of its namespaces or not: every release order (simultaneous starts included)
    def plain(causes, mode, others):
        return {'causes': list(causes), 'mode': mode, 'others': others, 'conn': False, 'residue': True}
    modes = ('handler', 'send', 'both')
    run_cfgs([plain(cs, md, o) for cs in two for md in modes for o in (False, True)])
    three = [['client', 'api', 'lost'], ['client', 'client', 'lost'], ['api', 'api', 'lost']]
    if ctx.thorough:
        run_cfgs([plain(cs, md, o) for cs in three for md in modes for o in (False, True)])
    else:
        run_cfgs([plain(three[0], 'both', o) for o in (False, True)])
        run_cfgs([plain(cs, 'both', ctx.rng.random() < 0.5) for cs in three[1:]], sample=25)
    cov = ctx.coverage
    cov['residue_schedules_causes_only'] = st.get('causes_only', 0)
    cov['residue_schedules_causes_only_transport_lost_while_another_cause_midway'] = st.get('causes_only_midway', 0)
    cov['residue_causes_only_rule'] = (
        'ORACLE ONLY, no emit involved: client DISCONNECT / disconnect() racing the LOSS OF THE TRANSPORT of the same '
        'session (two causes: all release orders incl. simultaneous starts; three causes: ' +
        ('all release orders' if ctx.thorough else 'the three distinct causes: all release orders, suspension in both; '
         'repeated causes sampled') + '), each suspended in the disconnect handler, in the '
        'transport send, or both; the session the sole member of its namespaces / sharing the namespace with another '
        'client. Judged at quiescence by the same model-free residue probe: no reference to the departed transport or its '
        'session ids anywhere in the server\'s object graph, pending-disconnect marks included; graph back to its '
        'pre-client size when everyone has left')
    cov['residue_schedules'] = st['runs']
    cov['residue_schedules_session_ended_while_writes_pending'] = st['window']
    cov['residue_schedules_per_config'] = st['per_config']
    cov['residue_samples'] = st['samples']
    cov['residue_rule'] = (
        'ORACLE ONLY, real AsyncServer under the controlled scheduler of harness/sched_async.py: sio.emit to room R / '
        'to=[R1, R2] / the namespace / room R with a callback as a task of its own, every eio.send_packet made for it '
        'suspended on its own gate, racing the LOSS OF THE TRANSPORT of one member of the addressed group (3 members; the '
        'departed one first / middle / last in the iteration order), disconnect handlers suspended too; one cause: all '
        'release orders' + ('; transport loss together with a client DISCONNECT or disconnect() of the same session: all '
        'release orders for the callback emit, 2-member groups for the other kinds' if ctx.thorough else
        '; transport loss together with a client DISCONNECT or disconnect() of the same session: sampled') +
        '. After quiescence: the generic object-graph walk of the real server (the one the histories use) finds no reference '
        'to the departed transport or its session ids; callbacks / ack counters / pending marks / rooms / environ / binary '
        'buffers hold nothing for it; after the other clients left too the object graph has the size it had before the '
        'first client')
    cov['evaluations'] = cov.get('evaluations', 0) + st['runs']
    cov['traces_validated_against_impl'] = cov.get('traces_validated_against_impl', 0) + st['runs']
    return st


# ---------------------------------------------------------------------------------- C03: one recipient's write fails

FAULTY_POSITIONS = {'first': ['T2', 'T1', 'T4'], 'middle': ['T1', 'T2', 'T4'], 'last': ['T1', 'T4', 'T2'],
                    'first-session-last': ['T2', 'T4', 'T1']}


def emit_failure_oracle(obs):
    """C03 while the transport write to ONE member of the addressed group fails (engine.io refuses the packet:
    SocketIsClosedError): every OTHER member of the group that is connected receives the event exactly once -- whatever the
    order in which the writes are taken, wherever the faulty member comes in the iteration -- and the failure of one
    recipient is not raised out of emit() to the application (`emit_oracle`, with the faulty member exempt from the
    delivery clause, plus the task clauses)."""
    fails = list(emit_oracle(obs))
    emit_tasks = [i for i, k in enumerate(obs['side_tasks'], start=len(obs['kinds'])) if k in SIDE_EMIT]
    for (t, cls) in obs['raised']:
        if t in emit_tasks and not any('raised out of emit()' in f for f in fails):
            fails.append('emit task %r raised %s' % (t, cls))
    if [i for i in obs['unfinished'] if i in emit_tasks]:
        fails.append('emit tasks %r never finished' % (obs['unfinished'],))
    return fails


def run_emit_failure_schedules(ctx):
    """C03 under a failing transport write (called by harness/props/c03.py): `sio.emit` to room R / to=[R1, R2] / the
    namespace / room R with a callback as a task of its own on the real AsyncServer, every `eio.send_packet` made for it
    suspended on a gate of its own; when the gate of the write to member T2 is released the transport raises
    `engineio.exceptions.SocketIsClosedError` instead of taking the packet.  T2 first / in the middle / last in the
    iteration order of the group (3 members).  All release orders, with no terminating cause and with one terminating cause
    of another member (T1) in flight.  Oracle only (`emit_failure_oracle`).  Coverage key
    `emit_with_a_failing_write_schedules`."""
    st = {'runs': 0, 'fails': 0, 'per_config': {}, 'samples': [], 'failed_writes': 0, 'healthy_deliveries': 0,
          'task_errors_kept_inside_their_task': 0}

    def cfg_of(causes, kind, pos, mode):
        return {'causes': list(causes), 'mode': mode, 'others': False, 'conn': False, 'side': [kind],
                'emit_order': list(FAULTY_POSITIONS[pos]), 'fail_write': 'T2'}

    def run_cfgs(cfgs, sample=None):
        for cfg in cfgs:
            if st['fails'] >= 3:
                return
            it = explore(cfg) if sample is None else (random_schedule(cfg, ctx.rng) for _ in range(sample))
            n = 0
            for obs in it:
                n += 1
                st['runs'] += 1
                e = (obs.get('emit') or {}).get(cfg['side'][0]) or {}
                st['failed_writes'] += sum(1 for wr in e.get('writes') or [] if wr.get('failed'))
                st['healthy_deliveries'] += sum(v for t, v in ((obs.get('emit') or {}).get('delivered') or {}).items()
                                                if t != cfg['fail_write'])
                fails = emit_failure_oracle(obs)
                if fails:
                    st['fails'] += 1
                    ctx.violation('oracle', 'an emit to a group in which the transport write to ONE member fails does not '
                                  'reach every other connected member exactly once / raises to the application: %s' % fails,
                                  {'kernel': 'sched_emit_failure', 'cfg': cfg, 'sched': obs['sched'], 'oracle': fails,
                                   'emit': obs.get('emit')})
                    if st['fails'] >= 3:
                        break
                elif len(st['samples']) < 3 and st['runs'] % 397 == 1:
                    st['samples'].append({'cfg': cfg, 'sched': obs['sched'], 'emit': obs.get('emit')})
            pos = [k for k, v in FAULTY_POSITIONS.items() if v == cfg['emit_order']][0]
            key = ('+'.join(cfg['causes']) or 'no-cause') + '/' + cfg['mode'] + '/' + cfg['side'][0] + '/faulty-' + pos + \
                ('/sampled' if sample else '')
            st['per_config'][key] = st['per_config'].get(key, 0) + n
            ctx.count('emit_failure_sched:' + cfg['side'][0], n)
            ctx.count('emit_failure_sched_faulty:' + pos, n)
            ctx.count('emit_failure_sched_causes:' + ('+'.join(cfg['causes']) or 'none'), n)

    three = ('first', 'middle', 'last')
    run_cfgs([cfg_of([], k, pos, 'both') for k in SIDE_EMIT for pos in FAULTY_POSITIONS])
    run_cfgs([cfg_of([c], k, pos, 'handler') for c in CAUSES for k in SIDE_EMIT for pos in three])
    if ctx.thorough:
        run_cfgs([cfg_of([c], k, pos, 'both') for c in CAUSES for k in SIDE_EMIT for pos in FAULTY_POSITIONS])
        run_cfgs([cfg_of(cs, k, ctx.rng.choice(three), 'both') for cs in cause_sets(2) if len(cs) == 2 for k in SIDE_EMIT],
                 sample=40)
    cov = ctx.coverage
    cov['emit_with_a_failing_write_schedules'] = st['runs']
    cov['emit_with_a_failing_write_failed_writes'] = st['failed_writes']
    cov['emit_with_a_failing_write_deliveries_to_the_other_members'] = st['healthy_deliveries']
    cov['emit_with_a_failing_write_schedules_per_config'] = st['per_config']
    cov['emit_with_a_failing_write_samples'] = st['samples']
    cov['emit_with_a_failing_write_rule'] = (
        'ORACLE ONLY, real AsyncServer under the controlled scheduler of harness/sched_async.py: sio.emit to room R / '
        'to=[R1, R2] / the namespace / room R with a callback as a task of its own; every eio.send_packet made for it (from '
        'the emit task or tasks the library starts for it) is suspended on its own gate, and the one addressed to member T2 '
        'raises engineio.exceptions.SocketIsClosedError when released (a socket that is closed while its disconnect has '
        'not been processed: the member is still listed). T2 first / middle / last in the iteration order of a 3-member '
        'group; all release orders with no terminating cause and with one (client DISCONNECT / disconnect() / transport '
        'loss of member T1, suspended in its disconnect handler' + ('; thorough: suspended in handler and send, two causes '
        'sampled' if ctx.thorough else '') + '). Required: every other member that stays connected is written to and '
        'receives the event exactly once, nobody outside the group is written to, the emit returns and raises nothing to '
        'the application')
    cov['evaluations'] = cov.get('evaluations', 0) + st['runs']
    cov['traces_validated_against_impl'] = cov.get('traces_validated_against_impl', 0) + st['runs']
    return st


def replay_emit_failure(ctx, rep):
    obs = replay_schedule(rep['cfg'], rep['sched'])
    print('configuration: ', json.dumps(rep['cfg']))
    print('schedule:      ', json.dumps(obs['sched']))
    print('emit:          ', json.dumps(obs.get('emit'), default=str))
    print('raised:        ', json.dumps(obs['raised'], default=str))
    fails = emit_failure_oracle(obs)
    print('oracle:        ', 'holds' if not fails else fails)
    return 1 if fails else 0


def replay_residue(ctx, rep):
    obs = replay_schedule(rep['cfg'], rep['sched'])
    print('schedule:      ', json.dumps(obs['sched']))
    print('emit:          ', json.dumps(obs.get('emit'), default=str))
    print('residue probe: ', json.dumps(obs['residue_probe'], default=str))
    fails = residue_oracle(obs)
    print('oracle:        ', 'holds' if not fails else fails)
    return 1 if fails else 0


def replay(ctx, rep):
    obs = replay_schedule(rep['cfg'], rep['sched'])
    m = C.batch('sched', [model_line(obs)])[0]
    print('implementation:', json.dumps({k: obs[k] for k in ('causes', 'mode', 'side_tasks', 'sched', 'msched', 'calls', 'raised',
                                                               'swallowed', 'residue', 'connected', 'gate_atomic', 'side',
                                                               'new_session', 'emit')}, default=str))
    print('model:         ', json.dumps(m))
    fails = oracle(obs)
    print('oracle:        ', 'holds' if not fails else fails)
    print('correspondence:', correspondence(obs, m) or 'agrees')
    return 1 if fails else 0


def run_event_during_disconnect(ctx):
    """C05's schedule clause: an EVENT of a client whose disconnect is in progress (any terminating cause, any
    release order, suspended in handler and send) is dispatched and acknowledged iff the session was still connected
    at that instant — judged on the real AsyncServer; reports through ctx (coverage keys `sched_event_*`)."""
    runs = fails_n = 0
    samples = []
    for cs in cause_sets(2):
        if 'lost' in cs:
            continue
        cfg = {'causes': cs, 'mode': 'both', 'others': False, 'conn': False, 'side': ['event']}
        for obs in explore(cfg):
            runs += 1
            fails = [f for f in oracle(obs) if 'EVENT' in str(f) or 'event' in str(f)]
            if fails:
                fails_n += 1
                ctx.violation('oracle', 'an event sent while the client\'s disconnect is in progress is not handled as the '
                              'session state at that instant requires: %s' % fails,
                              {'kernel': 'sched_async', 'cfg': cfg, 'sched': obs['sched'], 'oracle': fails,
                               'observed': {'side': obs.get('side'), 'calls': obs['calls']}})
            if len(samples) < 2 and runs % 41 == 1:
                samples.append({'cfg': cfg, 'sched': obs['sched'], 'event': (obs.get('side') or {}).get('event')})
    ctx.coverage['sched_event_runs'] = runs
    ctx.coverage['sched_event_samples'] = samples
    return runs, fails_n
