"""A REAL socketio server reached only through engine.io's HTTP entry point — in process, no network.

`engineio.Server.handle_request(environ, start_response)` is plain WSGI and
`engineio.AsyncServer.handle_request(scope, receive, send)` (async_mode 'asgi') plain ASGI: `HttpWorld` hands them
hand-made environs / scope-receive-send triples for the long-polling transport and records status line, headers and
body of every response.  Everything above that entry is the library's: engine.io's request validation, handshake,
`Socket.handle_get_request` / `handle_post_request`, payload encoding (`___eio[j]("...");` for JSONP clients), CORS
headers, compression; socket.io on top of it.  Other worlds of this harness talk to `engineio.socket.Socket` objects
directly and never see this layer.

No waiting, no wall clock:
  * a long-polling GET on an empty queue would wait `ping_interval + ping_timeout` seconds: the queues of this world
    raise "empty" at once when asked to wait with a timeout, so an idle poll IS the poll that timed out (engine.io
    answers 400 and closes the socket with reason transport error);
  * the ping loop (`schedule_ping` -> background task `_send_ping`: sleep, then PING) is parked per socket and fired by
    the script (`ping(client)`), with `sleep` returning immediately;
  * the service task is not started; socket.io level background tasks are queued by `world.ServerWorld` and run by
    `settle()`.

On the asyncio server a client may also use the websocket transport, directly or by upgrading its polling session
(`websocket()` -> `WsSession`): ASGI scope type 'websocket'; the connection is a task of the server's event loop that
lives across script steps, and `pump()` runs the loop until nothing is runnable.  (The threaded server's websocket
needs a real socket and blocking threads: not driven here.)

Clients come in the three flavours of the polling transport: 'xhr' (plain), 'jsonp' (`j=<index>` in the query string,
form-encoded `d=` POST bodies) and 'b64' (`b64=1`).  `decode()` reads a response body the way such a client would.
"""
import asyncio
import gzip
import io
import queue
import re
import urllib.parse
import zlib

from . import common  # noqa: F401
from . import world as W

PATH = '/socket.io/'
RS = '\x1e'


class _NoWaitQueue(queue.Queue):
    def get(self, block=True, timeout=None):
        if timeout is not None:
            return queue.Queue.get(self, block=False)
        return queue.Queue.get(self, block, timeout)


    def join(self):
        # `Socket.close(wait=True)` (engine.io closing a session after a bad POST) waits until the client's pending
        # GET has taken everything: that GET is played by the script right afterwards
        return None


class _NoWaitAsyncQueue(asyncio.Queue):
    suspends = False      # True for a session served over a websocket: its writer task sleeps until there is something

    async def join(self):
        return None

    async def get(self):
        if self.empty() and not self.suspends:
            raise asyncio.TimeoutError()     # what `wait_for(queue.get(), timeout)` ends in on an idle poll
        return await asyncio.Queue.get(self)


class Client:
    def __init__(self, name, flavour, j=0):
        self.name = name
        self.flavour = flavour
        self.j = j                # next JSONP index
        self.sid = None           # engine.io session (None: no handshake yet / refused)
        self.t = 0

    def query(self, handshake=False, extra=''):
        q = 'EIO=4&transport=polling'
        self.t += 1
        q += '&t=v%s%d' % (self.name, self.t)
        if self.flavour == 'jsonp':
            q += '&j=%d' % self.j
            self.j += 1
        elif self.flavour == 'b64':
            q += '&b64=1'
        if not handshake and self.sid is not None:
            q += '&sid=' + self.sid
        return q + extra

    def body(self, packets):
        """engine.io packets (already encoded, e.g. '42["ev",1]' -> '442["ev",1]') -> (content type, body bytes)"""
        payload = RS.join(packets)
        if self.flavour == 'jsonp':
            return 'application/x-www-form-urlencoded', ('d=' + urllib.parse.quote_plus(payload)).encode('utf-8')
        return 'text/plain;charset=UTF-8', payload.encode('utf-8')


_JSONP = re.compile(r'^___eio\[(\d+)\]\("(.*)"\);$', re.S)


def decode(flavour, status, body, j=None):
    """what a client of this flavour makes of a 200 response: -> list of engine.io packets (text), or
    ('undecodable', why)"""
    if not status.startswith('200'):
        return ('status', status)
    try:
        text = body.decode('utf-8')
    except UnicodeDecodeError:
        return ('undecodable', 'not utf-8')
    if text == 'OK':
        return ['<OK>']
    if flavour == 'jsonp':
        m = _JSONP.match(text)
        if not m:
            return ('undecodable', 'a JSONP client evaluates the body as a script calling ___eio[j]("..."); got %r'
                    % text[:60])
        if j is not None and int(m.group(1)) != j:
            return ('undecodable', 'JSONP callback index %s, the request said %d' % (m.group(1), j))
        text = m.group(2).replace('\\"', '"')
    return text.split(RS) if text else []


class HttpWorld:
    def __init__(self, family='threading', **server_opts):
        self.family = family
        self.is_async = family == 'asyncio'
        self.w = W.ServerWorld(family, **server_opts)
        self.sio = self.w.sio
        self.eio = self.w.eio
        self.pings = {}               # engine.io sid -> parked `_send_ping` targets
        self.ids = []                 # every id `generate_id()` handed out, in order
        self.transcript = []
        gen = self.eio.generate_id

        def generate_id():
            i = gen()
            self.ids.append(i)
            return i
        self.eio.generate_id = generate_id
        self._ws_next = False
        if self.is_async:
            def create_queue(*a, **k):
                q = _NoWaitAsyncQueue(*a, **k)
                q.suspends = self._ws_next
                return q
            self.eio.create_queue = create_queue

            async def _sleep(seconds=0):
                return None
        else:
            self.eio.create_queue = lambda *a, **k: _NoWaitQueue(*a, **k)

            def _sleep(seconds=0):
                return None
        self.eio.sleep = _sleep
        self.eio.start_background_task = self._eio_bg

    # ---- engine.io level background tasks: the ping loop
    def _eio_bg(self, target, *args, **kwargs):
        sock = getattr(target, '__self__', None)
        sid = getattr(sock, 'sid', None)
        self.pings.setdefault(sid, []).append((target, args, kwargs))
        if self.is_async:
            fut = self.w.loop.create_future()
            fut.set_result(None)
            return fut

        class _T:
            def join(self, timeout=None):
                return None
        return _T()

    def ping(self, client):
        """the ping interval of this client's socket elapses: -> False (no ping loop was waiting) | True |
        ('died', exception class): the background task ended with an exception, as a thread would, silently"""
        tasks = self.pings.get(client.sid) or []
        if not tasks:
            return False
        target, args, kwargs = tasks.pop(0)
        # (AsyncSocket._send_ping sleeps with asyncio.sleep(server.ping_interval) itself: the interval is 0 while the
        # parked loop runs, so that no time passes; nothing else reads it meanwhile)
        keep = self.eio.ping_interval
        self.eio.ping_interval = 0
        try:
            r = target(*args, **kwargs)
            if asyncio.iscoroutine(r):
                self.w.loop.run_until_complete(r)
        except Exception as ex:   # noqa
            return ('died', type(ex).__name__)
        finally:
            self.eio.ping_interval = keep
        return True

    # ---- one HTTP request
    def request(self, method, query, body=b'', content_type=None, headers=None, content_length=None):
        """-> {'status', 'headers': [(name, value)], 'body': bytes}; `headers`: extra request headers as WSGI keys
        (HTTP_ORIGIN ...); `content_length`: what the Content-Length header claims, if not the truth"""
        if content_length is None:
            content_length = len(body)
        if self.is_async:
            return self._asgi(method, query, body, content_type, headers or {}, content_length)
        environ = {
            'REQUEST_METHOD': method, 'PATH_INFO': PATH, 'QUERY_STRING': query, 'SCRIPT_NAME': '',
            'CONTENT_LENGTH': str(content_length), 'wsgi.input': io.BytesIO(body), 'wsgi.url_scheme': 'http',
            'REMOTE_ADDR': '127.0.0.1', 'SERVER_NAME': 'localhost', 'SERVER_PORT': '80', 'HTTP_HOST': 'localhost',
            'SERVER_PROTOCOL': 'HTTP/1.1',
        }
        if content_type is not None:
            environ['CONTENT_TYPE'] = content_type
        environ.update(headers or {})
        got = []

        def start_response(status, hdrs, exc_info=None):
            got.append((status, list(hdrs)))
        try:
            ret = self.sio.handle_request(environ, start_response)
        except Exception as ex:   # noqa  (the web server would answer 500)
            return {'status': 'handle_request raised %s' % type(ex).__name__, 'headers': [], 'body': b''}
        data = b''.join(ret) if ret is not None else b''
        if len(got) != 1:
            return {'status': 'start_response called %d times' % len(got), 'headers': [], 'body': data}
        return {'status': got[0][0], 'headers': [(str(a), str(b)) for a, b in got[0][1]], 'body': data}

    def _asgi(self, method, query, body, content_type, headers, content_length):
        hdrs = [(b'host', b'localhost')]
        if content_type is not None:
            hdrs.append((b'content-type', content_type.encode()))
        if method == 'POST':
            hdrs.append((b'content-length', str(content_length).encode()))
        for k, v in headers.items():
            if k.startswith('HTTP_'):
                hdrs.append((k[5:].lower().replace('_', '-').encode(), v.encode()))
        scope = {'type': 'http', 'method': method, 'path': PATH, 'query_string': query.encode('utf-8'),
                 'headers': hdrs, 'scheme': 'http', 'server': ('localhost', 80), 'client': ('127.0.0.1', 1234)}
        events = [{'type': 'http.request', 'body': body, 'more_body': False}]
        sent = []

        async def receive():
            if events:
                return events.pop(0)
            return {'type': 'http.disconnect'}

        async def send(ev):
            sent.append(ev)
        try:
            self.w.loop.run_until_complete(self.sio.handle_request(scope, receive, send))
        except Exception as ex:   # noqa  (the web server would answer 500)
            return {'status': 'handle_request raised %s' % type(ex).__name__, 'headers': [], 'body': b''}
        start = [e for e in sent if e.get('type') == 'http.response.start']
        data = b''.join(e.get('body') or b'' for e in sent if e.get('type') == 'http.response.body')
        if len(start) != 1:
            return {'status': 'http.response.start sent %d times' % len(start), 'headers': [], 'body': data}
        return {'status': str(start[0]['status']),
                'headers': [(a.decode('latin-1'), b.decode('latin-1')) for a, b in start[0].get('headers', [])],
                'body': data}

    # ---- what clients do
    def handshake(self, client, headers=None, extra=''):
        before = set(self.eio.sockets)
        r = self.request('GET', client.query(handshake=True, extra=extra), headers=headers)
        new = [s for s in self.eio.sockets if s not in before]
        client.sid = new[0] if new else None
        return r

    def post(self, client, packets, headers=None):
        ct, body = client.body(packets)
        return self.request('POST', client.query(), body, ct, headers)

    def poll(self, client, headers=None):
        return self.request('GET', client.query(), headers=headers)

    def queued(self, client):
        """does the server hold anything for this client?  (an idle poll is a poll that times out)"""
        s = self.eio.sockets.get(client.sid)
        return s is not None and not s.queue.empty()

    # ---- websocket transport (asyncio / ASGI only): a connection is a task that lives across script steps
    def pump(self):
        """run the event loop until nothing is runnable (timers are never reached: no time passes)"""
        loop = self.w.loop
        for _ in range(100000):
            if not loop._ready:
                break
            loop.call_soon(loop.stop)
            loop.run_forever()

    def websocket(self, client, upgrade=False, headers=None):
        """the client opens a websocket: directly (`transport=websocket`, no sid) or to upgrade its polling session"""
        if not self.is_async:
            raise ValueError('websocket sessions are driven through ASGI only')
        ws = WsSession(self, client, upgrade, headers or {})
        before = set(self.eio.sockets)
        if upgrade:
            sock = self.eio.sockets.get(client.sid)
            if sock is not None:
                sock.queue.suspends = True
        self._ws_next = not upgrade
        try:
            ws.task = self.w.loop.create_task(self.sio.handle_request(ws.scope, ws.receive, ws.send))
            self.pump()
        finally:
            self._ws_next = False
        if not upgrade:
            new = [x for x in self.eio.sockets if x not in before]
            client.sid = new[0] if new else None
        return ws

    def settle(self):
        return self.w.settle()

    def close(self):
        self.w.close()


class WsSession:
    """one websocket connection through `AsyncServer.handle_request(scope, receive, send)` with scope type
    'websocket': `receive` hands over what the script makes the client send, `send` records what the server sends"""

    def __init__(self, hw, client, upgrade, headers):
        self.hw = hw
        self.client = client
        q = 'EIO=4&transport=websocket'
        client.t += 1
        q += '&t=v%s%d' % (client.name, client.t)
        if upgrade and client.sid is not None:
            q += '&sid=' + client.sid
        hdrs = [(b'host', b'localhost'), (b'upgrade', b'websocket'), (b'connection', b'Upgrade'),
                (b'sec-websocket-version', b'13')]
        for k, v in headers.items():
            if k.startswith('HTTP_'):
                hdrs.append((k[5:].lower().replace('_', '-').encode(), v.encode()))
        self.scope = {'type': 'websocket', 'path': PATH, 'query_string': q.encode(), 'headers': hdrs,
                      'scheme': 'ws', 'server': ('localhost', 80), 'client': ('127.0.0.1', 1234), 'subprotocols': []}
        self.inbox = []
        self.waiter = None
        self.connected = False
        self.out = []
        self.task = None

    async def receive(self):
        if not self.connected:
            self.connected = True
            return {'type': 'websocket.connect'}
        while not self.inbox:
            self.waiter = self.hw.w.loop.create_future()
            await self.waiter
        return self.inbox.pop(0)

    async def send(self, ev):
        t = ev.get('type')
        if t == 'websocket.send':
            if ev.get('bytes') is not None:
                self.out.append(['bytes', bytes(ev['bytes']).hex()])
            else:
                self.out.append(['text', ev.get('text')])
        elif t == 'websocket.accept':
            self.out.append(['accept', sorted((a.decode('latin-1'), b.decode('latin-1'))
                                              for a, b in ev.get('headers') or [])])
        elif t == 'websocket.close':
            self.out.append(['close', ev.get('reason')])
        else:
            self.out.append([str(t), repr(ev)])

    def _feed(self, ev):
        self.inbox.append(ev)
        if self.waiter is not None and not self.waiter.done():
            self.waiter.set_result(None)
        self.hw.pump()

    def client_sends(self, data):
        """a text (str) or binary (bytes) frame from the client"""
        if isinstance(data, bytes):
            self._feed({'type': 'websocket.receive', 'bytes': data, 'text': None})
        else:
            self._feed({'type': 'websocket.receive', 'text': data, 'bytes': None})

    def client_closes(self):
        self._feed({'type': 'websocket.disconnect', 'code': 1000})

    def take(self):
        """what the server has sent on this connection since the last call"""
        self.hw.pump()
        out, self.out = self.out, []
        return out

    def ended(self):
        return self.task is not None and self.task.done()


def plain_body(resp):
    """response body with a Content-Encoding undone (gzip / deflate carry a timestamp resp. nothing: the compressed
    bytes are not what a client observes)"""
    enc = [v for k, v in resp['headers'] if k.lower() == 'content-encoding']
    body = resp['body']
    try:
        if enc == ['gzip']:
            return gzip.decompress(body)
        if enc == ['deflate']:
            return zlib.decompress(body)
    except Exception:   # noqa
        return b'<undecompressable>' + body
    return body
