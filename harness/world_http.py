"""A REAL socketio server reached only through engine.io's HTTP entry point — in process, no network.

`engineio.Server.handle_request(environ, start_response)` is plain WSGI and
`engineio.AsyncServer.handle_request(scope, receive, send)` (async_mode 'asgi') plain ASGI: `HttpWorld` hands them
hand-made environs / scope-receive-send triples for the long-polling transport and records status line, headers and
body of every response.  Everything above that entry is the library's: engine.io's request validation, handshake,
`Socket.handle_get_request` / `handle_post_request`, payload encoding (`___eio[j]("...");` for JSONP clients), CORS
headers, compression; socket.io on top of it.  Other worlds of this harness talk to `engineio.socket.Socket` objects
directly and never see this layer.

No waiting, no wall clock:
  * a long-polling GET on an empty queue would wait `ping_interval + ping_timeout` seconds: the queues of this world
    raise "empty" at once when asked to wait with a timeout, so an idle poll IS the poll that timed out (engine.io
    answers 400 and closes the socket with reason transport error);
  * the ping loop (`schedule_ping` -> background task `_send_ping`: sleep, then PING) is parked per socket and fired by
    the script (`ping(client)`), with `sleep` returning immediately;
  * the service task is not started; socket.io level background tasks are queued by `world.ServerWorld` and run by
    `settle()`.

Clients come in the three flavours of the polling transport: 'xhr' (plain), 'jsonp' (`j=<index>` in the query string,
form-encoded `d=` POST bodies) and 'b64' (`b64=1`).  `decode()` reads a response body the way such a client would.
"""
import asyncio
import gzip
import io
import queue
import re
import urllib.parse
import zlib

from . import common  # noqa: F401
from . import world as W

PATH = '/socket.io/'
RS = '\x1e'


class _NoWaitQueue(queue.Queue):
    def get(self, block=True, timeout=None):
        if timeout is not None:
            return queue.Queue.get(self, block=False)
        return queue.Queue.get(self, block, timeout)


    def join(self):
        # `Socket.close(wait=True)` (engine.io closing a session after a bad POST) waits until the client's pending
        # GET has taken everything: that GET is played by the script right afterwards
        return None


class _NoWaitAsyncQueue(asyncio.Queue):
    async def join(self):
        return None

    async def get(self):
        if self.empty():
            raise asyncio.TimeoutError()     # what `wait_for(queue.get(), timeout)` ends in on an idle poll
        return self.get_nowait()


class Client:
    def __init__(self, name, flavour, j=0):
        self.name = name
        self.flavour = flavour
        self.j = j                # next JSONP index
        self.sid = None           # engine.io session (None: no handshake yet / refused)
        self.t = 0

    def query(self, handshake=False, extra=''):
        q = 'EIO=4&transport=polling'
        self.t += 1
        q += '&t=v%s%d' % (self.name, self.t)
        if self.flavour == 'jsonp':
            q += '&j=%d' % self.j
            self.j += 1
        elif self.flavour == 'b64':
            q += '&b64=1'
        if not handshake and self.sid is not None:
            q += '&sid=' + self.sid
        return q + extra

    def body(self, packets):
        """engine.io packets (already encoded, e.g. '42["ev",1]' -> '442["ev",1]') -> (content type, body bytes)"""
        payload = RS.join(packets)
        if self.flavour == 'jsonp':
            return 'application/x-www-form-urlencoded', ('d=' + urllib.parse.quote_plus(payload)).encode('utf-8')
        return 'text/plain;charset=UTF-8', payload.encode('utf-8')


_JSONP = re.compile(r'^___eio\[(\d+)\]\("(.*)"\);$', re.S)


def decode(flavour, status, body, j=None):
    """what a client of this flavour makes of a 200 response: -> list of engine.io packets (text), or
    ('undecodable', why)"""
    if not status.startswith('200'):
        return ('status', status)
    try:
        text = body.decode('utf-8')
    except UnicodeDecodeError:
        return ('undecodable', 'not utf-8')
    if text == 'OK':
        return ['<OK>']
    if flavour == 'jsonp':
        m = _JSONP.match(text)
        if not m:
            return ('undecodable', 'a JSONP client evaluates the body as a script calling ___eio[j]("..."); got %r'
                    % text[:60])
        if j is not None and int(m.group(1)) != j:
            return ('undecodable', 'JSONP callback index %s, the request said %d' % (m.group(1), j))
        text = m.group(2).replace('\\"', '"')
    return text.split(RS) if text else []


class HttpWorld:
    def __init__(self, family='threading', **server_opts):
        self.family = family
        self.is_async = family == 'asyncio'
        self.w = W.ServerWorld(family, **server_opts)
        self.sio = self.w.sio
        self.eio = self.w.eio
        self.pings = {}               # engine.io sid -> parked `_send_ping` targets
        self.ids = []                 # every id `generate_id()` handed out, in order
        self.transcript = []
        gen = self.eio.generate_id

        def generate_id():
            i = gen()
            self.ids.append(i)
            return i
        self.eio.generate_id = generate_id
        if self.is_async:
            self.eio.create_queue = lambda *a, **k: _NoWaitAsyncQueue(*a, **k)

            async def _sleep(seconds=0):
                return None
        else:
            self.eio.create_queue = lambda *a, **k: _NoWaitQueue(*a, **k)

            def _sleep(seconds=0):
                return None
        self.eio.sleep = _sleep
        self.eio.start_background_task = self._eio_bg

    # ---- engine.io level background tasks: the ping loop
    def _eio_bg(self, target, *args, **kwargs):
        sock = getattr(target, '__self__', None)
        sid = getattr(sock, 'sid', None)
        self.pings.setdefault(sid, []).append((target, args, kwargs))
        if self.is_async:
            fut = self.w.loop.create_future()
            fut.set_result(None)
            return fut

        class _T:
            def join(self, timeout=None):
                return None
        return _T()

    def ping(self, client):
        """the ping interval of this client's socket elapses: -> was a ping loop waiting?"""
        tasks = self.pings.get(client.sid) or []
        if not tasks:
            return False
        target, args, kwargs = tasks.pop(0)
        # (AsyncSocket._send_ping sleeps with asyncio.sleep(server.ping_interval) itself: the interval is 0 while the
        # parked loop runs, so that no time passes; nothing else reads it meanwhile)
        keep = self.eio.ping_interval
        self.eio.ping_interval = 0
        try:
            r = target(*args, **kwargs)
            if asyncio.iscoroutine(r):
                self.w.loop.run_until_complete(r)
        finally:
            self.eio.ping_interval = keep
        return True

    # ---- one HTTP request
    def request(self, method, query, body=b'', content_type=None, headers=None, content_length=None):
        """-> {'status', 'headers': [(name, value)], 'body': bytes}; `headers`: extra request headers as WSGI keys
        (HTTP_ORIGIN ...); `content_length`: what the Content-Length header claims, if not the truth"""
        if content_length is None:
            content_length = len(body)
        if self.is_async:
            return self._asgi(method, query, body, content_type, headers or {}, content_length)
        environ = {
            'REQUEST_METHOD': method, 'PATH_INFO': PATH, 'QUERY_STRING': query, 'SCRIPT_NAME': '',
            'CONTENT_LENGTH': str(content_length), 'wsgi.input': io.BytesIO(body), 'wsgi.url_scheme': 'http',
            'REMOTE_ADDR': '127.0.0.1', 'SERVER_NAME': 'localhost', 'SERVER_PORT': '80', 'HTTP_HOST': 'localhost',
            'SERVER_PROTOCOL': 'HTTP/1.1',
        }
        if content_type is not None:
            environ['CONTENT_TYPE'] = content_type
        environ.update(headers or {})
        got = []

        def start_response(status, hdrs, exc_info=None):
            got.append((status, list(hdrs)))
        try:
            ret = self.sio.handle_request(environ, start_response)
        except Exception as ex:   # noqa  (the web server would answer 500)
            return {'status': 'handle_request raised %s' % type(ex).__name__, 'headers': [], 'body': b''}
        data = b''.join(ret) if ret is not None else b''
        if len(got) != 1:
            return {'status': 'start_response called %d times' % len(got), 'headers': [], 'body': data}
        return {'status': got[0][0], 'headers': [(str(a), str(b)) for a, b in got[0][1]], 'body': data}

    def _asgi(self, method, query, body, content_type, headers, content_length):
        hdrs = [(b'host', b'localhost')]
        if content_type is not None:
            hdrs.append((b'content-type', content_type.encode()))
        if method == 'POST':
            hdrs.append((b'content-length', str(content_length).encode()))
        for k, v in headers.items():
            if k.startswith('HTTP_'):
                hdrs.append((k[5:].lower().replace('_', '-').encode(), v.encode()))
        scope = {'type': 'http', 'method': method, 'path': PATH, 'query_string': query.encode('utf-8'),
                 'headers': hdrs, 'scheme': 'http', 'server': ('localhost', 80), 'client': ('127.0.0.1', 1234)}
        events = [{'type': 'http.request', 'body': body, 'more_body': False}]
        sent = []

        async def receive():
            if events:
                return events.pop(0)
            return {'type': 'http.disconnect'}

        async def send(ev):
            sent.append(ev)
        try:
            self.w.loop.run_until_complete(self.sio.handle_request(scope, receive, send))
        except Exception as ex:   # noqa  (the web server would answer 500)
            return {'status': 'handle_request raised %s' % type(ex).__name__, 'headers': [], 'body': b''}
        start = [e for e in sent if e.get('type') == 'http.response.start']
        data = b''.join(e.get('body') or b'' for e in sent if e.get('type') == 'http.response.body')
        if len(start) != 1:
            return {'status': 'http.response.start sent %d times' % len(start), 'headers': [], 'body': data}
        return {'status': str(start[0]['status']),
                'headers': [(a.decode('latin-1'), b.decode('latin-1')) for a, b in start[0].get('headers', [])],
                'body': data}

    # ---- what clients do
    def handshake(self, client, headers=None, extra=''):
        before = set(self.eio.sockets)
        r = self.request('GET', client.query(handshake=True, extra=extra), headers=headers)
        new = [s for s in self.eio.sockets if s not in before]
        client.sid = new[0] if new else None
        return r

    def post(self, client, packets, headers=None):
        ct, body = client.body(packets)
        return self.request('POST', client.query(), body, ct, headers)

    def poll(self, client, headers=None):
        return self.request('GET', client.query(), headers=headers)

    def queued(self, client):
        """does the server hold anything for this client?  (an idle poll is a poll that times out)"""
        s = self.eio.sockets.get(client.sid)
        return s is not None and not s.queue.empty()

    def settle(self):
        return self.w.settle()

    def close(self):
        self.w.close()


def plain_body(resp):
    """response body with a Content-Encoding undone (gzip / deflate carry a timestamp resp. nothing: the compressed
    bytes are not what a client observes)"""
    enc = [v for k, v in resp['headers'] if k.lower() == 'content-encoding']
    body = resp['body']
    try:
        if enc == ['gzip']:
            return gzip.decompress(body)
        if enc == ['deflate']:
            return zlib.decompress(body)
    except Exception:   # noqa
        return b'<undecompressable>' + body
    return body
