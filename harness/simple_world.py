"""Deterministic worlds for C19: the REAL socketio.SimpleClient / AsyncSimpleClient driven by a schedule.

Threads (`ThreadWorld`): producer (the handler registered for '*'), connection handlers
(connect / disconnect / __disconnect_final) and consumer (receive / emit / call) run on real OS
threads, exactly one runnable at a time.  Every access of SimpleClient to its shared variables —
`connected_event`, `input_event` (replaced by `EventProxy`), `input_buffer` (`BufProxy`),
`connected` (a property of a subclass that adds nothing else), `client.emit/call` (scripted fake
client) — first hands control to the scheduler; a schedule token lets one thread perform exactly
one such access and run up to (not including) its next one.  `Event.wait` follows threading.Event:
flag set -> True at once; otherwise the caller parks, is notified by the next set() (and then
returns True even if the flag was cleared again), or — token 'T', only if a timeout was given and
it has not been notified — returns False.

asyncio (`AsyncWorld`): the real AsyncSimpleClient with real asyncio.Event objects on an event
loop with virtual time that is advanced only by the schedule; handlers are called between loop
iterations, the consumer task is advanced by running the loop until nothing is ready.

Tokens (same vocabulary as `siodriver simple`): P · C · Cf · T · Kc Kd Kf · Sr St Se (Sc = call()).

receive() with other timeout values (harness tokens, `RECV_TIMEOUT`): Sz = receive(timeout=0), Sn = a negative
timeout, Sp = a tiny positive one.  All three are `St` for the model (a receive that was given a timeout).  A wait
with timeout <= 0 expires at once when the flag is clear (threading.Event.wait(0) returns False without waiting,
asyncio.wait_for(..., 0) raises TimeoutError without the waiter ever being notified): the thread world lets such a
wait expire within the consumer step that made it, the asyncio world needs nothing (the loop does it); for the
model that is the pair `C T` ("the consumer parks; the timeout fires before anything else happens") — `T` changes
nothing in the model unless the consumer is parked in a timed wait, so a non-empty buffer is returned whatever the
timeout.  `mtoks` records, per harness token, the model tokens it stands for.
"""
import _thread
import asyncio
import signal
import threading

from . import common as C  # noqa  (puts VERIF_REPO/src on sys.path)

import socketio
from socketio import exceptions as sx


class Abort(BaseException):
    """unwinds an actor thread at the end of a schedule"""


# ------------------------------------------------------------------------------------ scheduler

class Actor:
    def __init__(self, sched, name, body):
        self.sched = sched
        self.name = name
        self.go = _thread.allocate_lock()
        self.go.acquire()
        self.pending = None          # label of the access the thread is about to make / 'start' / 'blocked'
        self.blocked_on = None
        self.woken = False
        self.timed = False
        self.immediate = False
        self.wait_result = None
        self.done = False
        self.ops = []                # labels of accesses made (diagnostics)
        self.thread = threading.Thread(target=self._run, args=(body,), daemon=True)

    def _run(self, body):
        self.sched.tls.actor = self
        try:
            self.go.acquire()
            if self.sched.aborting:
                raise Abort()
            body(self)
        except Abort:
            pass
        finally:
            self.done = True
            self.pending = None
            self.sched.main.release()

    # called on the actor's own thread
    def park(self, label):
        self.pending = label
        self.sched.main.release()
        self.go.acquire()
        if self.sched.aborting:
            raise Abort()
        if label not in ('start', 'blocked'):
            self.ops.append(label)

    @property
    def status(self):
        if self.done:
            return 'done'
        if self.pending == 'start':
            return 'idle'
        if self.blocked_on is not None and not self.woken:
            return 'blocked'
        return 'ready'


class Sched:
    def __init__(self):
        self.main = _thread.allocate_lock()
        self.main.acquire()
        self.tls = threading.local()
        self.actors = []
        self.aborting = False

    def me(self):
        return getattr(self.tls, 'actor', None)

    def pre(self, label):
        """pre-emption point before a shared access; no-op on the harness's own thread"""
        a = self.me()
        if a is not None:
            a.park(label)
        return a

    def spawn(self, name, body):
        a = Actor(self, name, body)
        self.actors.append(a)
        a.thread.start()
        self.grant(a)               # run to the first park
        return a

    def grant(self, a):
        a.go.release()
        self.main.acquire()

    def step(self, a):
        """let actor make one access; False if it cannot move"""
        if a.done or a.status == 'blocked':
            return False
        if a.blocked_on is not None:
            a.wait_result = True
        self.grant(a)
        return True

    def timeout(self, a):
        if a.done or a.status != 'blocked' or not a.timed:
            return False
        a.wait_result = False
        self.grant(a)
        return True

    def close(self):
        self.aborting = True
        for a in self.actors:
            if not a.done:
                a.go.release()
                self.main.acquire()
        for a in self.actors:
            a.thread.join()


class EventProxy:
    """stands in for threading.Event; semantics as documented in the module docstring"""

    def __init__(self, sched, name):
        self.sched = sched
        self.name = name
        self.flag = False

    def is_set(self):
        self.sched.pre(self.name + '.is_set')
        return self.flag

    isSet = is_set

    def set(self):
        self.sched.pre(self.name + '.set')
        self.flag = True
        for a in self.sched.actors:
            if a.blocked_on is self:
                a.woken = True

    def clear(self):
        self.sched.pre(self.name + '.clear')
        self.flag = False

    def wait(self, timeout=None):
        a = self.sched.pre(self.name + '.wait')
        if a is None or self.flag:
            return self.flag
        a.blocked_on = self
        a.woken = False
        a.timed = timeout is not None
        a.immediate = timeout is not None and timeout <= 0    # threading.Event.wait(<=0): no waiting at all
        a.park('blocked')
        a.blocked_on = None
        a.woken = False
        a.immediate = False
        return a.wait_result


class BufProxy:
    """stands in for the list `input_buffer`: every operation is a pre-emption point"""

    def __init__(self, sched, data=None):
        self.sched = sched
        self.data = [] if data is None else data

    def __bool__(self):
        self.sched.pre('buf.bool')
        return bool(self.data)

    def __len__(self):
        self.sched.pre('buf.len')
        return len(self.data)

    def append(self, x):
        self.sched.pre('buf.append')
        self.data.append(x)

    def pop(self, *a):
        self.sched.pre('buf.pop')
        return self.data.pop(*a)

    def insert(self, i, x):
        self.sched.pre('buf.insert')
        self.data.insert(i, x)

    def extend(self, xs):
        self.sched.pre('buf.extend')
        self.data.extend(xs)

    def clear(self):
        self.sched.pre('buf.clear')
        self.data.clear()

    def remove(self, x):
        self.sched.pre('buf.remove')
        self.data.remove(x)

    def __getitem__(self, i):
        self.sched.pre('buf.getitem')
        return self.data[i]

    def __delitem__(self, i):
        self.sched.pre('buf.delitem')
        del self.data[i]

    def __iter__(self):
        self.sched.pre('buf.iter')
        return iter(list(self.data))

    def __eq__(self, other):
        self.sched.pre('buf.eq')
        return self.data == (other.data if isinstance(other, BufProxy) else other)

    __hash__ = None


class FakeClient:
    """scripted stand-in for socketio.Client (the collaborator, not the object under test)"""
    world = None        # set per instance through the factory below

    def __init__(self, *args, **kwargs):
        self.ctor = (args, kwargs)
        self.handlers = {}          # (event, namespace) -> fn
        self.connect_args = None
        self.sent = []              # successful emits/calls: (kind, event, data, namespace, extra)
        self.attempts = 0
        self.next_ok = True
        self.transport_name = 'fake'
        self.unhandled = []         # events triggered for which the object under test registered no handler

    def event(self, *args, **kwargs):
        if len(args) == 1 and len(kwargs) == 0 and callable(args[0]):
            return self.on(args[0].__name__)(args[0])

        def set_handler(handler):
            return self.on(handler.__name__, *args, **kwargs)(handler)
        return set_handler

    def on(self, event, handler=None, namespace=None):
        namespace = namespace or '/'

        def set_handler(handler):
            self.handlers[(event, namespace)] = handler
            return handler
        if handler is None:
            return set_handler
        set_handler(handler)

    def connect(self, url, **kwargs):
        self.connect_args = (url, kwargs)

    def trigger(self, event, namespace, *args):
        """what Client._trigger_event does with an explicit handler; an event for which the object under test
        registered nothing (through on() / event()) has nothing to call, as in the real client"""
        h = self.handlers.get((event, namespace))
        if h is None:
            self.unhandled.append(event)
            return None
        try:
            return h(*args)
        except TypeError:
            if event == 'disconnect':
                return h(*args[:-1])
            raise

    def _scripted(self, kind, event, data, namespace, extra):
        self.attempts += 1
        if not self.next_ok:
            raise self.fail_class()
        self.sent.append((kind, event, data, namespace, extra))
        return ('ack', len(self.sent)) if kind == 'call' else None

    fail_class = sx.BadNamespaceError

    def get_sid(self, namespace=None):
        return 'sid'

    @property
    def transport(self):
        return self.transport_name

    def disconnect(self):
        pass


class ThreadFakeClient(FakeClient):
    sched = None

    def emit(self, event, data=None, namespace=None, callback=None):
        self.sched.pre('client.emit')
        return self._scripted('emit', event, data, namespace, callback)

    def call(self, event, data=None, namespace=None, timeout=60):
        self.sched.pre('client.call')
        return self._scripted('call', event, data, namespace, timeout)


EVENT_ARGS = [('msg', 1), ('msg', 'two', {'k': [2]}), ('other',), ('msg', b'\x03', None), ('e5', 5, 5),
              ('e6',), ('e7', [7]), ('e8', 8)]


def arrival(i):
    ev = EVENT_ARGS[i % len(EVENT_ARGS)]
    return (ev[0],) + tuple(ev[1:]) + ((i,) if i >= len(EVENT_ARGS) else ())


TOKENS = ('P', 'C', 'Cf', 'T', 'Kc', 'Kd', 'Kf', 'Sr', 'St', 'Sz', 'Sn', 'Sp', 'Se', 'Sc')
# receive(timeout=...) per start token; ZERO_OPS: the timeout is already over when the call is made
RECV_TIMEOUT = {'Sr': None, 'St': 5, 'Sz': 0, 'Sn': -0.5, 'Sp': 1e-9}
RECV_OPS = tuple(RECV_TIMEOUT)
ZERO_OPS = ('Sz', 'Sn')
START_OPS = RECV_OPS + ('Se', 'Sc')
# call(timeout=...) of the n-th finished-or-not application call (passed through to client.call untouched)
CALL_TIMEOUTS = (7, 0, None, 0.0, -1, 60)
KNAME = {'Kc': 'connect', 'Kd': 'disconnect', 'Kf': '__disconnect_final'}


class WorldBase:
    """book-keeping shared by both worlds: what the application and the handlers observably did"""
    namespace = '/chat'

    def _init_obs(self):
        self.outcomes = []          # per finished consumer call: dict(op=, kind='ret'|'exc'|'sent', value/cls, facts)
        self.invoked = 0            # arrivals whose handler has been invoked
        self.completed = 0          # arrivals whose handler has returned
        self.returned = 0           # events returned by receive()
        self.conn_started = []      # handler names, in order of invocation
        self.cur_op = None
        self.timeout_on = None      # which event the wait that just timed out was parked on
        self.oracle = []            # (signature-or-None, text)
        self.mtoks = []             # per harness token: the model tokens it stands for
        self.start_avail = 0        # when the current call was made: arrived (append+set done) and unreturned
        self.start_flag = False     # ... and the state of the input_event flag
        self.ended_rd = None        # `ended` when the current call last read `self.connected` (thread world)

    def _note_start(self):
        self.start_avail = max(0, self.completed - self.returned)   # (an event can be returned before its set())
        self.start_flag = self.input_flag()

    def _note_token(self, tok):
        """called by do() before the token is executed"""
        if tok in RECV_OPS:
            m = ['Sr' if tok == 'Sr' else 'St']
        elif tok == 'Sc':
            m = ['Se']
        elif tok in ('C', 'Cf') and self.cur_op in ZERO_OPS:
            m = [tok, 'T']          # a wait made by this step with the flag clear expires at once
        else:
            m = [tok]
        self.mtoks.append(m)

    # -- facts for the oracle
    @property
    def ended(self):
        cf = [k for k in self.conn_started if k != 'disconnect']
        return bool(cf) and cf[-1] == '__disconnect_final'

    def _record(self, kind, value):
        o = {'op': self.cur_op, 'kind': kind, 'value': value, 'completed': self.completed,
             'invoked': self.invoked, 'returned': self.returned, 'ended': self.ended,
             'waiting_on': self.timeout_on, 'avail_start': self.start_avail, 'flag_start': self.start_flag,
             'ended_rd': self.ended_rd,
             'after_reconnect': 'disconnect' in self.conn_started and self.conn_started[-1] == 'connect'}
        self.outcomes.append(o)
        self._judge(o)
        if kind == 'ret' and self.cur_op in RECV_OPS:
            self.returned += 1

    def _judge(self, o):
        """the property, evaluated on what the implementation observably did"""
        op, kind, v = o['op'], o['kind'], o['value']
        if op in RECV_OPS:
            if kind == 'ret':
                k = o['returned']
                if k >= o['invoked']:
                    self.oracle.append((None, 'receive() returned %r but only %d events have arrived and %d '
                                              'were already returned' % (v, o['invoked'], k)))
                elif v != list(arrival(k)) or type(v) is not list:
                    self.oracle.append((None, 'receive() #%d returned %r, arrival #%d was %r (order/once/shape)'
                                        % (k, v, k, list(arrival(k)))))
            elif kind == 'exc' and v == 'TimeoutError':
                if op == 'Sr':
                    self.oracle.append((None, 'receive() without timeout raised TimeoutError'))
                if o['completed'] > o['returned']:
                    sig = 'recv-at-connection-wait-ignores-buffer' if o['waiting_on'] == 'cev' else None
                    self.oracle.append((sig, 'receive(timeout=%r) raised TimeoutError while %d arrived event(s) '
                                             'were available (append+set done, not yet returned); it was waiting '
                                             'on %s' % (RECV_TIMEOUT[op], o['completed'] - o['returned'],
                                                        o['waiting_on'])))
            elif kind == 'exc' and v == 'DisconnectedError':
                # "ended for good": receive() reads `connected` and then tests the buffer (two accesses), and the
                # schedules also start connect handlers after __disconnect_final, between the two included: the
                # connection must have ended for good now or when this call read `connected`
                # (C19.disconnected_after_drain: endedRd; asyncio: one block, ended_rd stays None)
                if not (o['ended'] or o['ended_rd']):
                    self.oracle.append((None, 'receive() raised DisconnectedError but the connection has not '
                                              'ended for good (handlers so far: %r)' % (self.conn_started,)))
                elif o['completed'] > o['returned']:
                    self.oracle.append((None,
                                        'receive() raised DisconnectedError while %d arrived event(s) had not '
                                        'been returned' % (o['completed'] - o['returned'])))
            else:
                self.oracle.append((None, 'receive() ended with %s %r' % (kind, v)))
        else:
            if kind == 'ret':
                sent = self.client.sent
                want_kind = 'emit' if op == 'Se' else 'call'
                ok = (len(sent) == self.sent_before + 1 and sent[-1][0] == want_kind and
                      sent[-1][1:4] == self.cur_send_args and
                      v == (None if op == 'Se' else ('ack', len(sent))))
                if ok and op == 'Sc':
                    # call(timeout=...) is handed to client.call() as given (0 and None included)
                    got = sent[-1][4]
                    ok = got == self.cur_call_timeout and type(got) is type(self.cur_call_timeout)
                    if not ok:
                        self.oracle.append((None, 'call(timeout=%r) reached client.call() as timeout=%r'
                                            % (self.cur_call_timeout, got)))
                        return
                if not ok:
                    self.oracle.append((None, '%s returned %r but the client accepted %r (expected exactly one '
                                              '%s of %r)' % (want_kind, v, sent[self.sent_before:], want_kind,
                                                             self.cur_send_args)))
            elif kind == 'exc' and v == 'DisconnectedError':
                if not o['ended']:
                    self.oracle.append((None, 'emit/call raised DisconnectedError but the connection has not '
                                              'ended for good (handlers so far: %r)' % (self.conn_started,)))
            else:
                self.oracle.append((None, 'emit/call ended with %s %r' % (kind, v)))

    def conn_up(self):
        """the last connection event the client delivered (handler returned, or nothing registered for it) is
        `connect`: the namespace is connected"""
        return bool(self.conn_started) and self.conn_started[-1] == 'connect' and not self.conn_mid()

    def judge_blocked(self):
        """called after every token: a parked receive() with an available event must be runnable; an application
        call waits out a reconnection in progress, not longer: once the connection is up again no call may be
        parked waiting for the connection (emit/call wait for nothing else)"""
        if self.consumer_status() == 'blocked' and self.cur_op is not None and self.conn_up():
            w = self.waiting_on()
            if self.cur_op not in RECV_OPS or w == 'cev':
                what = ('receive(timeout=%r)' % RECV_TIMEOUT[self.cur_op] if self.cur_op in RECV_OPS else
                        'emit()' if self.cur_op == 'Se' else 'call()')
                t = ('%s is parked on %s and cannot run although the connection is up (connection events delivered '
                     'by the client so far: %r; %d arrived event(s) unreturned): a call waits out a reconnection in '
                     'progress, it must go on once the connection is established again'
                     % (what, w, self.conn_started, self.completed - self.returned))
                if (None, t) not in self.oracle:
                    self.oracle.append((None, t))
        if self.consumer_status() == 'blocked' and self.cur_op in RECV_OPS and \
                self.completed > self.returned:
            w = self.waiting_on()
            sig = 'recv-at-connection-wait-ignores-buffer' if w == 'cev' else None
            t = ('receive() is parked on %s and cannot run although %d arrived event(s) are available'
                 % (w, self.completed - self.returned))
            if (sig, t) not in self.oracle:
                self.oracle.append((sig, t))

    def obs(self):
        return [self.consumer_status(), len(self.outcomes), self.producer_mid(), self.conn_mid()]

    def outcome_list(self):
        out = []
        for o in self.outcomes:
            if o['kind'] == 'exc':
                out.append({'exc': o['value']})
            elif o['op'] in RECV_OPS:
                out.append({'ret': o['value']})
            else:
                out.append('sent')
        return out


# ------------------------------------------------------------------------------------ threads

class ThreadWorld(WorldBase):
    variant = 'threads'

    def __init__(self, sample_fail=None):
        self._init_obs()
        sched = self.sched = Sched()
        world = self

        class SC(socketio.SimpleClient):
            """adds nothing but the pre-emption point on `connected`"""
            @property
            def connected(self):
                a = sched.pre('conn.get')
                if a is not None and a.name == 'consumer':
                    world.ended_rd = world.ended
                return self.__dict__['_connected']

            @connected.setter
            def connected(self, v):
                sched.pre('conn.set')
                self.__dict__['_connected'] = v

        class FC(ThreadFakeClient):
            pass
        FC.sched = sched
        if sample_fail is not None:
            FC.fail_class = sample_fail
        SC.client_class = FC
        sc = self.sc = SC('ctor-arg', logger=False)
        sc.connected_event = self.cev = EventProxy(sched, 'cev')
        sc.input_event = self.iev = EventProxy(sched, 'iev')
        sc.connect('http://verif.invalid', namespace=self.namespace, wait_timeout=0)
        self.client = sc.client
        self.buf = BufProxy(sched, sc.input_buffer)
        sc.input_buffer = self.buf
        self.sent_before = 0
        self.cur_send_args = None
        self.cur_call_timeout = None
        self.next_consumer_op = None
        self.next_conn = None
        self.producer = sched.spawn('producer', self._producer)
        self.handler = sched.spawn('handler', self._handler)
        self.consumer = sched.spawn('consumer', self._consumer)

    # -- actor bodies (run on their own threads)
    def _producer(self, a):
        while True:
            a.park('start')
            i = self.invoked
            self.invoked += 1
            self.client.trigger('*', self.namespace, *arrival(i))
            self.completed += 1

    def _handler(self, a):
        while True:
            a.park('start')
            k = self.next_conn
            self.conn_started.append(k)
            if k == 'disconnect':
                self.client.trigger(k, self.namespace, 'transport close')
            else:
                self.client.trigger(k, self.namespace)

    def _consumer(self, a):
        sc = self.sc
        while True:
            a.park('start')
            op = self.next_consumer_op
            self.cur_op = op
            self.timeout_on = None
            self.ended_rd = None
            self.sent_before = len(self.client.sent)
            n = len(self.outcomes)
            try:
                if op == 'Sr':
                    r = sc.receive()
                elif op in RECV_OPS:
                    r = sc.receive(timeout=RECV_TIMEOUT[op])
                elif op == 'Se':
                    self.cur_send_args = ('ev%d' % n, {'n': n}, self.namespace)
                    r = sc.emit('ev%d' % n, {'n': n})
                else:
                    self.cur_send_args = ('ev%d' % n, ('a', n), self.namespace)
                    self.cur_call_timeout = CALL_TIMEOUTS[n % len(CALL_TIMEOUTS)]
                    r = sc.call('ev%d' % n, ('a', n), timeout=self.cur_call_timeout)
                self._record('ret', r)
            except Abort:
                raise
            except Exception as e:      # noqa
                self._record('exc', type(e).__name__)
            self.cur_op = None

    # -- scheduler side
    def consumer_status(self):
        return self.consumer.status

    def producer_mid(self):
        return self.producer.status != 'idle'

    def conn_mid(self):
        return self.handler.status != 'idle'

    def waiting_on(self):
        b = self.consumer.blocked_on
        return None if b is None else b.name

    def input_flag(self):
        return self.iev.flag

    def do(self, tok):
        s = self.sched
        self._note_token(tok)
        if tok == 'P':
            if self.producer.status == 'idle':
                s.step(self.producer)
                if self.producer.status != 'idle':      # (idle again: no handler registered, nothing was called)
                    s.step(self.producer)
            else:
                s.step(self.producer)
        elif tok in KNAME:
            if self.handler.status == 'idle':
                self.next_conn = KNAME[tok]
                s.step(self.handler)
                if self.handler.status != 'idle':       # (idle again: no handler registered, nothing was called)
                    s.step(self.handler)
            else:
                s.step(self.handler)
        elif tok in ('C', 'Cf'):
            if self.consumer.status != 'idle':
                self.client.next_ok = (tok == 'C')
                s.step(self.consumer)
                if self.consumer.status == 'blocked' and self.consumer.immediate:
                    # Event.wait(timeout <= 0) found the flag clear: it returns False without waiting
                    self.timeout_on = self.waiting_on()
                    s.timeout(self.consumer)
        elif tok == 'T':
            if self.consumer.status != 'idle':
                self.timeout_on = self.waiting_on()
                s.timeout(self.consumer)
        elif tok in START_OPS:
            if self.consumer.status == 'idle':
                self._note_start()
                self.next_consumer_op = tok
                s.step(self.consumer)
        else:
            raise ValueError(tok)
        self.judge_blocked()

    def can_timeout(self):
        return self.consumer.status == 'blocked' and self.consumer.timed

    def at_client_call(self):
        return self.consumer.pending in ('client.emit', 'client.call')

    def close(self):
        self.sched.close()


# ------------------------------------------------------------------------------------ asyncio

class Spinning(Exception):
    """a task keeps running without suspending"""


def _spinning(signum, frame):
    raise Spinning('the consumer task has been running for 5 s without suspending')


class VirtualLoop(asyncio.SelectorEventLoop):
    """time() moves only when the schedule says so"""

    def __init__(self):
        super().__init__()
        self.vtime = 1000.0

    def time(self):
        return self.vtime

    def pump(self):
        """run loop iterations until nothing is ready (never blocks: a stop callback is always queued).
        A coroutine that spins without ever suspending would hang the check: a watchdog interrupts it
        (the only wall-clock element; it never fires on code that suspends)."""
        n = 0
        armed = threading.current_thread() is threading.main_thread()
        if armed:
            old = signal.signal(signal.SIGALRM, _spinning)
            signal.setitimer(signal.ITIMER_REAL, 5)
        try:
            while self._ready:
                self.call_soon(self.stop)
                self.run_forever()
                n += 1
                if n > 1000:
                    raise Spinning('event loop does not quiesce')
        finally:
            if armed:
                signal.setitimer(signal.ITIMER_REAL, 0)
                signal.signal(signal.SIGALRM, old)

    def next_timer(self):
        live = [h for h in self._scheduled if not h._cancelled]
        return min(live, key=lambda h: h._when) if live else None


class AsyncFakeClient(FakeClient):
    world = None

    async def connect(self, url, **kwargs):
        self.connect_args = (url, kwargs)

    async def _gate(self):
        w = self.world
        w.gate = w.loop.create_future()
        try:
            await w.gate
        finally:
            w.gate = None

    async def emit(self, event, data=None, namespace=None, callback=None):
        await self._gate()
        return self._scripted('emit', event, data, namespace, callback)

    async def call(self, event, data=None, namespace=None, timeout=60):
        await self._gate()
        return self._scripted('call', event, data, namespace, timeout)

    async def disconnect(self):
        pass


class AsyncWorld(WorldBase):
    variant = 'asyncio'
    _loop = None

    def __init__(self, sample_fail=None):
        self._init_obs()
        if AsyncWorld._loop is None or AsyncWorld._loop.is_closed():
            AsyncWorld._loop = VirtualLoop()
        loop = self.loop = AsyncWorld._loop
        world = self

        class FC(AsyncFakeClient):
            pass
        FC.world = world
        if sample_fail is not None:
            FC.fail_class = sample_fail

        class SC(socketio.AsyncSimpleClient):
            client_class = FC
        sc = self.sc = SC('ctor-arg', logger=False)
        self.gate = None
        t = loop.create_task(sc.connect('http://verif.invalid', namespace=self.namespace, wait_timeout=0))
        loop.pump()
        t.result()
        self.client = sc.client
        self.task = None
        self.sent_before = 0
        self.cur_send_args = None
        self.cur_call_timeout = None
        self._prod_mid = False
        self._conn_mid = False

    async def _consume(self, op):
        sc = self.sc
        self.cur_op = op
        self.timeout_on = None
        self.sent_before = len(self.client.sent)
        n = len(self.outcomes)
        try:
            if op == 'Sr':
                r = await sc.receive()
            elif op in RECV_OPS:
                r = await sc.receive(timeout=RECV_TIMEOUT[op])
            elif op == 'Se':
                self.cur_send_args = ('ev%d' % n, {'n': n}, self.namespace)
                r = await sc.emit('ev%d' % n, {'n': n})
            else:
                self.cur_send_args = ('ev%d' % n, ('a', n), self.namespace)
                self.cur_call_timeout = CALL_TIMEOUTS[n % len(CALL_TIMEOUTS)]
                r = await sc.call('ev%d' % n, ('a', n), timeout=self.cur_call_timeout)
            self._record('ret', r)
        except asyncio.CancelledError:
            raise
        except Exception as e:      # noqa
            self._record('exc', type(e).__name__)
        self.cur_op = None

    def consumer_status(self):
        if self.task is None or self.task.done():
            return 'idle'
        if self.loop._ready or (self.gate is not None and not self.gate.done()):
            return 'ready'
        return 'blocked'

    def producer_mid(self):
        return False

    def conn_mid(self):
        return False

    def waiting_on(self):
        if self.consumer_status() != 'blocked':
            return None
        if self.sc.connected_event._waiters:
            return 'cev'
        if self.sc.input_event._waiters:
            return 'iev'
        return '?'

    def input_flag(self):
        return self.sc.input_event.is_set()

    def do(self, tok):
        loop = self.loop
        self._note_token(tok)
        if tok == 'P':
            i = self.invoked
            self.invoked += 1
            self.client.trigger('*', self.namespace, *arrival(i))
            self.completed += 1
        elif tok in KNAME:
            k = KNAME[tok]
            self.conn_started.append(k)
            if k == 'disconnect':
                self.client.trigger(k, self.namespace, 'transport close')
            else:
                self.client.trigger(k, self.namespace)
        elif tok in ('C', 'Cf'):
            if self.consumer_status() == 'ready':
                if not loop._ready and self.gate is not None:
                    self.client.next_ok = (tok == 'C')
                    self.gate.set_result(None)
                loop.pump()
        elif tok == 'T':
            if self.consumer_status() == 'blocked':
                h = loop.next_timer()
                if h is not None:
                    self.timeout_on = self.waiting_on()
                    loop.vtime = h._when + 0.001
                    loop.call_soon(lambda: None)
                    loop.pump()
        elif tok in START_OPS:
            if self.consumer_status() == 'idle':
                self._note_start()
                self.cur_op = tok
                self.task = loop.create_task(self._consume(tok))
        else:
            raise ValueError(tok)
        self.judge_blocked()

    def can_timeout(self):
        return self.consumer_status() == 'blocked' and self.loop.next_timer() is not None

    def at_client_call(self):
        return self.gate is not None and not self.gate.done() and not self.loop._ready

    def close(self):
        if self.task is not None and not self.task.done():
            self.task.cancel()
            self.loop.pump()
        for h in list(self.loop._scheduled):
            h.cancel()
        self.loop._scheduled.clear()
        self.loop._timer_cancelled_count = 0
