"""ast -> lean/Sio/Generated/Constants.lean: the literal constants of the source that the hand-written
models repeat (the theorems of `Sio/Props/Glue{Codec,Server,Reconnect}.lean` state that the models' constants equal these, so
a changed literal in the source makes `lake build` of those modules fail).

Nothing is imported or executed.  From `${VERIF_REPO:-/repo}/src/socketio`:

    packet.py            the packet type numbers `(CONNECT, …, BINARY_ACK) = (0, …, 6)`, `packet_names`;
                         in `Packet.decode` the attachment-digit limit (`if dash > 10: raise …`) and the
                         id-digit limit (`if not ep[i].isdigit() or i >= 100: break`)
    server.py            `_handle_connect`: `data='Unable to connect'` of the CONNECT_ERROR packet;
    async_server.py      the same; `call(…, timeout=60, …)`
    exceptions.py        `ConnectionRefusedError.__init__`: the dict for `len(args) == 0` and the
                         key under which further arguments are stored
    client.py /          `__init__` as `Client(...)` / `AsyncClient(...)` see it (own body, then base
    async_client.py /    classes): defaults of reconnection, reconnection_attempts, reconnection_delay,
    base_client.py       reconnection_delay_max, randomization_factor; `call(…, timeout=60)`

and from the INSTALLED python-engineio (located with `importlib.util.find_spec`, not imported;
`VERIF_ENGINEIO=<dir>` overrides the package directory): the strings of the nested class `reason`
that `socketio.base_server.BaseServer.reason = engineio.Server.reason` and
`socketio.base_client.BaseClient.reason = engineio.Client.reason` point to, found by following
`engineio/__init__.py` and the base classes as attribute lookup would.

Numbers: `int` -> `Nat` where the model has a `Nat`; delays, factors and timeouts -> `Rat`, the exact
value of the Python literal (`fractions.Fraction` of the int / float object).
A constant that cannot be found, or is not a literal of the expected type, is a TranslatorError.
"""
import ast
import importlib.util
import os
from fractions import Fraction

from .regen import TranslatorError, lean_str, lean_list

PACKET_TYPES = ['CONNECT', 'DISCONNECT', 'EVENT', 'ACK', 'CONNECT_ERROR', 'BINARY_EVENT', 'BINARY_ACK']
RECONNECT_PARAMS = [          # (python parameter, lean name suffix, kind)
    ('reconnection', 'reconnection', 'bool'),
    ('reconnection_attempts', 'reconnectionAttempts', 'nat'),
    ('reconnection_delay', 'reconnectionDelay', 'rat'),
    ('reconnection_delay_max', 'reconnectionDelayMax', 'rat'),
    ('randomization_factor', 'randomizationFactor', 'rat'),
]
SERVER_REASONS = ['SERVER_DISCONNECT', 'CLIENT_DISCONNECT', 'PING_TIMEOUT', 'TRANSPORT_CLOSE', 'TRANSPORT_ERROR']
CLIENT_REASONS = ['CLIENT_DISCONNECT', 'SERVER_DISCONNECT', 'TRANSPORT_ERROR']


# ------------------------------------------------------------------------------------------------
# a package directory read with `ast`

class Pkg:
    def __init__(self, directory, label):
        self.dir = directory
        self.label = label
        self._trees = {}

    def path(self, fname):
        return os.path.join(self.dir, fname)

    def has(self, fname):
        return os.path.exists(self.path(fname))

    def tree(self, fname):
        if fname not in self._trees:
            path = self.path(fname)
            try:
                with open(path, encoding='utf-8') as f:
                    self._trees[fname] = ast.parse(f.read(), path)
            except (OSError, SyntaxError) as e:
                raise TranslatorError('cannot parse %s: %s' % (path, e))
        return self._trees[fname]

    def module_aliases(self, fname):
        """`from . import x [as y]` -> {y: 'x.py'}"""
        out = {}
        for node in self.tree(fname).body:
            if isinstance(node, ast.ImportFrom) and node.level == 1 and node.module is None:
                for a in node.names:
                    out[a.asname or a.name] = a.name + '.py'
        return out

    def imported_names(self, fname):
        """`from .x import Y [as Z]` -> {Z: ('x.py', 'Y')}"""
        out = {}
        for node in self.tree(fname).body:
            if isinstance(node, ast.ImportFrom) and node.level == 1 and node.module and '.' not in node.module:
                for a in node.names:
                    out[a.asname or a.name] = (node.module + '.py', a.name)
        return out

    def find_class(self, fname, cname):
        if not self.has(fname):
            return None
        for node in self.tree(fname).body:
            if isinstance(node, ast.ClassDef) and node.name == cname:
                return node
        return None

    def lookup(self, fname, cname, pick, depth=0):
        """`pick(stmt)` over the class body (last hit wins), then the bases left to right, as attribute
        lookup would.  -> (hit, 'file:Class') or (None, None)"""
        if depth > 8:
            return None, None
        cls = self.find_class(fname, cname)
        if cls is None:
            return None, None
        found = None
        for st in cls.body:
            r = pick(st)
            if r is not None:
                found = r
        if found is not None:
            return found, '%s/%s:%s' % (self.label, fname, cname)
        mods = self.module_aliases(fname)
        for b in cls.bases:
            if isinstance(b, ast.Attribute) and isinstance(b.value, ast.Name) and b.value.id in mods:
                r = self.lookup(mods[b.value.id], b.attr, pick, depth + 1)
            elif isinstance(b, ast.Name):
                r = self.lookup(fname, b.id, pick, depth + 1)
            else:
                continue
            if r[0] is not None:
                return r
        return None, None

    def method(self, fname, cname, mname):
        def pick(st):
            if isinstance(st, (ast.FunctionDef, ast.AsyncFunctionDef)) and st.name == mname:
                return st
        fn, where = self.lookup(fname, cname, pick)
        if fn is None:
            raise TranslatorError('%s: method %s.%s not found (looked in %s and its base classes)'
                                  % (self.label, cname, mname, fname))
        return fn, where


def socketio_pkg(repo):
    d = os.path.join(repo, 'src', 'socketio')
    if not os.path.isdir(d):
        raise TranslatorError('no directory %s' % d)
    return Pkg(d, 'socketio')


def engineio_pkg():
    d = os.environ.get('VERIF_ENGINEIO')
    if not d:
        try:
            spec = importlib.util.find_spec('engineio')
        except (ImportError, ValueError) as e:
            raise TranslatorError('cannot locate the installed engineio package: %s' % e)
        if spec is None or not spec.submodule_search_locations:
            raise TranslatorError('the engineio package is not installed in this interpreter')
        d = list(spec.submodule_search_locations)[0]
    if not os.path.isdir(d):
        raise TranslatorError('no directory %s' % d)
    return Pkg(d, 'engineio')


# ------------------------------------------------------------------------------------------------
# extraction

def _walk_no_nested(node):
    """ast.walk that does not descend into nested function / class definitions"""
    todo = list(ast.iter_child_nodes(node))
    while todo:
        n = todo.pop(0)
        yield n
        if not isinstance(n, (ast.FunctionDef, ast.AsyncFunctionDef, ast.ClassDef, ast.Lambda)):
            todo[0:0] = list(ast.iter_child_nodes(n))


def _int_const(node, what):
    if isinstance(node, ast.Constant) and type(node.value) is int and node.value >= 0:
        return node.value
    raise TranslatorError('%s is not a non-negative integer literal: %s' % (what, ast.unparse(node)))


def _str_const(node, what):
    if isinstance(node, ast.Constant) and isinstance(node.value, str):
        return node.value
    raise TranslatorError('%s is not a string literal: %s' % (what, ast.unparse(node)))


def packet_types(pkg):
    """module-level assignments of packet.py -> {name: int}, packet_names -> [str]"""
    vals, names = {}, None
    for st in pkg.tree('packet.py').body:
        if not isinstance(st, ast.Assign):
            continue
        for t in st.targets:
            if isinstance(t, (ast.Tuple, ast.List)) and isinstance(st.value, (ast.Tuple, ast.List)) \
                    and len(t.elts) == len(st.value.elts):
                for n, v in zip(t.elts, st.value.elts):
                    if isinstance(n, ast.Name) and n.id in PACKET_TYPES:
                        vals[n.id] = _int_const(v, 'packet.%s' % n.id)
            elif isinstance(t, ast.Name) and t.id in PACKET_TYPES:
                vals[t.id] = _int_const(st.value, 'packet.%s' % t.id)
            elif isinstance(t, ast.Name) and t.id == 'packet_names':
                if not isinstance(st.value, (ast.List, ast.Tuple)):
                    raise TranslatorError('packet.packet_names is not a literal list: %s' % ast.unparse(st.value))
                names = [_str_const(e, 'an element of packet.packet_names') for e in st.value.elts]
    missing = [n for n in PACKET_TYPES if n not in vals]
    if missing:
        raise TranslatorError('packet.py: no module-level assignment of %s' % ', '.join(missing))
    if names is None:
        raise TranslatorError('packet.py: no module-level assignment of packet_names')
    return vals, names


def _limit(cmp, var, strict_means, what):
    """`var > N` / `var >= N` -> the largest value of `var` that does NOT satisfy the comparison when
    strict_means == 'max_ok' (attachment digits: `dash > 10` allows 10), or the smallest value that
    DOES when strict_means == 'first_stop' (id digits: `i >= 100` stops at 100)."""
    if not (isinstance(cmp, ast.Compare) and isinstance(cmp.left, ast.Name) and cmp.left.id == var
            and len(cmp.ops) == 1 and isinstance(cmp.ops[0], (ast.Gt, ast.GtE))):
        return None
    n = _int_const(cmp.comparators[0], what)
    strict = isinstance(cmp.ops[0], ast.Gt)
    if strict_means == 'max_ok':
        if not strict and n == 0:
            raise TranslatorError('%s: `%s` leaves no admissible value' % (what, ast.unparse(cmp)))
        return n if strict else n - 1
    return n + 1 if strict else n


def decode_limits(pkg):
    fn, where = pkg.method('packet.py', 'Packet', 'decode')
    att, idl = [], []
    for node in _walk_no_nested(fn):
        if not isinstance(node, ast.If):
            continue
        # if dash > 10: raise ValueError(...)
        if node.body and isinstance(node.body[0], ast.Raise):
            r = _limit(node.test, 'dash', 'max_ok', 'the attachment-digit limit of Packet.decode')
            if r is not None:
                att.append((r, ast.unparse(node.test)))
        # if not ep[i].isdigit() or i >= 100: break
        if node.body and isinstance(node.body[0], ast.Break) and isinstance(node.test, ast.BoolOp) \
                and isinstance(node.test.op, ast.Or):
            for v in node.test.values:
                r = _limit(v, 'i', 'first_stop', 'the id-digit limit of Packet.decode')
                if r is not None:
                    idl.append((r, ast.unparse(node.test)))
    if len(att) != 1:
        raise TranslatorError('%s: expected exactly one `if dash > <int>: raise …`, found %d' % (where, len(att)))
    if len(idl) != 1:
        raise TranslatorError('%s: expected exactly one `if … or i >= <int>: break`, found %d' % (where, len(idl)))
    return att[0], idl[0], where


def unable_to_connect(pkg, fname, cname):
    """`_handle_connect`: under `if sid is None:` the packet `packet_class(packet.CONNECT_ERROR, data=<str>, …)`"""
    fn, where = pkg.method(fname, cname, '_handle_connect')
    hits = []
    for node in _walk_no_nested(fn):
        if not (isinstance(node, ast.If) and isinstance(node.test, ast.Compare)
                and isinstance(node.test.left, ast.Name) and node.test.left.id == 'sid'
                and len(node.test.ops) == 1 and isinstance(node.test.ops[0], ast.Is)
                and isinstance(node.test.comparators[0], ast.Constant)
                and node.test.comparators[0].value is None):
            continue
        for st in node.body:
            for c in ast.walk(st):
                if isinstance(c, ast.Call) and c.args and isinstance(c.args[0], ast.Attribute) \
                        and c.args[0].attr == 'CONNECT_ERROR':
                    data = [k.value for k in c.keywords if k.arg == 'data']
                    if len(c.args) > 1:
                        data.append(c.args[1])
                    for d in data:
                        hits.append(_str_const(d, 'the data of the CONNECT_ERROR packet of %s._handle_connect' % cname))
    if len(hits) != 1:
        raise TranslatorError('%s: expected exactly one CONNECT_ERROR packet under `if sid is None:`, found %d'
                              % (where, len(hits)))
    return hits[0], where


def refused_defaults(pkg):
    """ConnectionRefusedError.__init__: `if len(args) == 0: self.error_args = {<str>: <str>}` and the key
    of `self.error_args[<str>] = …`"""
    fn, where = pkg.method('exceptions.py', 'ConnectionRefusedError', '__init__')

    def is_error_args(t):
        return isinstance(t, ast.Attribute) and t.attr == 'error_args' and isinstance(t.value, ast.Name) \
            and t.value.id == 'self'
    default, keys = [], []
    for node in _walk_no_nested(fn):
        if isinstance(node, ast.If) and isinstance(node.test, ast.Compare) \
                and ast.unparse(node.test).replace(' ', '') == 'len(args)==0':
            for st in node.body:
                if isinstance(st, ast.Assign) and any(is_error_args(t) for t in st.targets):
                    if not (isinstance(st.value, ast.Dict) and len(st.value.keys) == 1):
                        raise TranslatorError('%s: error_args for no arguments is not a one-entry dict literal: %s'
                                              % (where, ast.unparse(st.value)))
                    default.append((_str_const(st.value.keys[0], 'the key of the default error_args'),
                                    _str_const(st.value.values[0], 'the default message of ConnectionRefusedError')))
        if isinstance(node, ast.Assign):
            for t in node.targets:
                if isinstance(t, ast.Subscript) and is_error_args(t.value):
                    keys.append(_str_const(t.slice, 'the key of self.error_args[…]'))
    if len(default) != 1:
        raise TranslatorError('%s: expected exactly one `if len(args) == 0: self.error_args = {…}`, found %d'
                              % (where, len(default)))
    if not keys or len(set(keys)) != 1:
        raise TranslatorError('%s: expected `self.error_args[<one key>] = …`, found keys %r' % (where, keys))
    return default[0][0], default[0][1], keys[0], where


def default_of(fn, pname, where):
    a = fn.args
    pos = a.posonlyargs + a.args
    for p, d in zip(pos[len(pos) - len(a.defaults):], a.defaults):
        if p.arg == pname:
            return d
    for p, d in zip(a.kwonlyargs, a.kw_defaults):
        if p.arg == pname and d is not None:
            return d
    raise TranslatorError('%s: parameter %s has no default value' % (where, pname))


def lean_value(node, kind, what):
    """-> (lean type, lean term)"""
    if not isinstance(node, ast.Constant):
        raise TranslatorError('%s is not a literal: %s' % (what, ast.unparse(node)))
    v = node.value
    if kind == 'bool':
        if type(v) is not bool:
            raise TranslatorError('%s is not a bool literal: %r' % (what, v))
        return 'Bool', 'true' if v else 'false'
    if kind == 'nat':
        if type(v) is not int or v < 0:
            raise TranslatorError('%s is not a non-negative int literal: %r' % (what, v))
        return 'Nat', str(v)
    if kind == 'rat':
        if type(v) not in (int, float) or v != v or v in (float('inf'), float('-inf')):
            raise TranslatorError('%s is not a finite int / float literal: %r' % (what, v))
        q = Fraction(v)
        num = '(%d : Rat)' % q.numerator if q.numerator >= 0 else '(-%d : Rat)' % -q.numerator
        return 'Rat', num if q.denominator == 1 else '%s / %d' % (num, q.denominator)
    raise AssertionError(kind)


def reason_strings(sio, eio, sio_file, sio_class, wanted):
    """socketio `<sio_class>.reason = engineio.<X>.reason` -> the strings of engineio's nested class"""
    def pick_reason(st):
        if isinstance(st, ast.Assign) and any(isinstance(t, ast.Name) and t.id == 'reason' for t in st.targets):
            return st.value
    node, where = sio.lookup(sio_file, sio_class, pick_reason)
    if node is None:
        raise TranslatorError('socketio/%s: class %s has no attribute `reason`' % (sio_file, sio_class))
    if not (isinstance(node, ast.Attribute) and node.attr == 'reason' and isinstance(node.value, ast.Attribute)
            and isinstance(node.value.value, ast.Name) and node.value.value.id == 'engineio'):
        raise TranslatorError('%s.reason is not `engineio.<Class>.reason`: %s' % (where, ast.unparse(node)))
    ecls = node.value.attr
    exported = eio.imported_names('__init__.py')
    if ecls not in exported:
        raise TranslatorError('engineio/__init__.py does not export %s' % ecls)
    efile, ename = exported[ecls]

    def pick_class(st):
        if isinstance(st, ast.ClassDef) and st.name == 'reason':
            return st
    rcls, ewhere = eio.lookup(efile, ename, pick_class)
    if rcls is None:
        raise TranslatorError('engineio.%s has no nested class `reason`' % ecls)
    vals = {}
    for st in rcls.body:
        if isinstance(st, ast.Assign):
            for t in st.targets:
                if isinstance(t, ast.Name):
                    vals[t.id] = st.value
    out = []
    for name in wanted:
        if name not in vals:
            raise TranslatorError('%s.reason has no attribute %s' % (ewhere, name))
        out.append((name, _str_const(vals[name], '%s.reason.%s' % (ewhere, name))))
    return out, '%s.reason (via %s)' % (ewhere, where)


# ------------------------------------------------------------------------------------------------

# ---------------------------------------------------------------------------------- measured fallback
#
# The extraction above is syntactic: a behaviour-preserving rewrite of the source (str.partition instead
# of find, `while i < min(len(ep), 100)` instead of `if ... or i >= 100: break`, a helper method ...) can
# move a constant out of the shape it recognises.  That is not a reason to stop: the constant is what the
# code DOES.  When the syntactic extraction of one item fails, the item is measured instead, by running the
# source's own modules in a separate interpreter (`PYTHONPATH=<repo>/src`, nothing of this process is
# touched), and the generated doc string says so.  Only when both fail is a TranslatorError raised.

_PROBE = r"""
import json, sys
out = {}
try:
    from socketio import packet
    def accepts(text):
        try:
            packet.Packet(encoded_packet=text)
            return True
        except ValueError as e:
            return str(e)
    # attachment digits: the largest k such that a count of k digits is not refused as 'too many attachments'
    k = 0
    while k < 400 and accepts('5' + '1' * (k + 1) + '-["e"]') is True:
        k += 1
    out['attDigitLimit'] = k
    # id digits: the largest k such that an id of k digits is accepted
    k = 0
    while k < 4000 and accepts('2' + '7' * (k + 1) + '["e"]') is True:
        k += 1
    out['idDigitLimit'] = k
except Exception as e:
    out['packet_error'] = repr(e)
try:
    from socketio import exceptions
    d0 = exceptions.ConnectionRefusedError().error_args
    d2 = exceptions.ConnectionRefusedError('m', 'x').error_args
    (mk, msg), = d0.items()
    dk = [k_ for k_ in d2 if k_ != mk]
    out['refused'] = [mk, msg, dk[0]] if len(dk) == 1 and d2.get(mk) == 'm' and isinstance(msg, str) else None
except Exception as e:
    out['refused_error'] = repr(e)
try:
    import socketio
    class Eio:
        def __init__(self): self.sent = []
        def send(self, sid, data): self.sent.append(data)
    def unable(cls, is_async):
        import asyncio
        sio = cls()
        eio = Eio()
        if is_async:
            async def send(sid, data): eio.sent.append(data)
            eio.send = send
        sio.eio = eio
        if is_async:
            async def go():
                await sio._handle_eio_connect('T', {})
                await sio._handle_eio_message('T', '0/not-served-namespace,')
            asyncio.new_event_loop().run_until_complete(go())
        else:
            sio._handle_eio_connect('T', {})
            sio._handle_eio_message('T', '0/not-served-namespace,')
        pk = [packet.Packet(encoded_packet=x) for x in eio.sent if isinstance(x, str)]
        pk = [p_ for p_ in pk if p_.packet_type == packet.CONNECT_ERROR]
        return pk[0].data if len(pk) == 1 and isinstance(pk[0].data, str) else None
    out['serverUnableToConnect'] = unable(socketio.Server, False)
    out['asyncServerUnableToConnect'] = unable(socketio.AsyncServer, True)
except Exception as e:
    out['unable_error'] = repr(e)
print(json.dumps(out))
"""

_probe_cache = {}


def measured(repo):
    """-> dict of the constants that can be measured by running the source (cached per repo)"""
    repo = repo or os.environ.get('VERIF_REPO', '/repo')
    if repo not in _probe_cache:
        import json
        import subprocess
        import sys
        env = dict(os.environ, PYTHONPATH=os.path.join(repo, 'src'), PYTHONDONTWRITEBYTECODE='1')
        try:
            r = subprocess.run([sys.executable, '-c', _PROBE], capture_output=True, text=True, timeout=120, env=env,
                               cwd='/')
            _probe_cache[repo] = json.loads(r.stdout.strip().splitlines()[-1]) if r.returncode == 0 else {}
        except Exception:    # noqa
            _probe_cache[repo] = {}
    return _probe_cache[repo]


def or_measured(repo, key, extract):
    """`extract()` (syntactic) or, when the source no longer has the recognised shape, the measured value"""
    try:
        return extract(), None
    except TranslatorError as e:
        m = measured(repo).get(key)
        if m is None:
            raise
        return m, ('measured by running the source (the syntactic extraction failed: %s)' % e)


def constants(repo):
    """-> list of (lean name, lean type, lean term, doc); names are relative to `Sio.Generated`"""
    sio = socketio_pkg(repo)
    out = []
    vals, names = packet_types(sio)
    for n in PACKET_TYPES:
        out.append((n, 'Nat', str(vals[n]), 'packet.py: `%s = %d`' % (n, vals[n])))
    out.append(('packetNames', 'List (List Char)', lean_list([lean_str(n) for n in names]),
                'packet.py: `packet_names`'))
    try:
        (att, att_src), (idl, id_src), where = decode_limits(sio)
        out.append(('attDigitLimit', 'Nat', str(att),
                    '%s: `if %s: raise …` - an attachment count has at most this many digits' % (where, att_src)))
        out.append(('idDigitLimit', 'Nat', str(idl),
                    '%s: `if %s: break` - an id has at most this many digits' % (where, id_src)))
    except TranslatorError as e:
        m = measured(repo)
        if not (isinstance(m.get('attDigitLimit'), int) and isinstance(m.get('idDigitLimit'), int)):
            raise
        why = 'measured by running Packet.decode of the source (the syntactic extraction failed: %s)' % e
        out.append(('attDigitLimit', 'Nat', str(m['attDigitLimit']), 'an attachment count has at most this many digits - ' + why))
        out.append(('idDigitLimit', 'Nat', str(m['idDigitLimit']), 'an id has at most this many digits - ' + why))
    for lname, fname, cname in (('serverUnableToConnect', 'server.py', 'Server'),
                                ('asyncServerUnableToConnect', 'async_server.py', 'AsyncServer')):
        why = None
        try:
            s, where = unable_to_connect(sio, fname, cname)
        except TranslatorError as e:
            s = measured(repo).get(lname)
            if not isinstance(s, str):
                raise
            where = 'socketio/%s:%s' % (fname, cname)
            why = 'measured by sending a CONNECT for an unserved namespace to the source\'s server (the syntactic extraction failed: %s)' % e
        out.append((lname, 'List Char', lean_str(s),
                    '%s._handle_connect: data of the CONNECT_ERROR packet for an unserved namespace%s'
                    % (where, ' - ' + why if why else '')))
    try:
        mkey, msg, dkey, where = refused_defaults(sio)
    except TranslatorError as e:
        m = measured(repo).get('refused')
        if not m:
            raise
        mkey, msg, dkey = m
        where = 'socketio/exceptions.py:ConnectionRefusedError (measured by constructing it; the syntactic extraction failed: %s)' % e
    out.append(('refusedMessageKey', 'List Char', lean_str(mkey), '%s.__init__: key of the message' % where))
    out.append(('refusedDefaultMessage', 'List Char', lean_str(msg),
                '%s.__init__: message of `ConnectionRefusedError()`' % where))
    out.append(('refusedDataKey', 'List Char', lean_str(dkey), '%s.__init__: key of further arguments' % where))
    for prefix, fname, cname in (('client', 'client.py', 'Client'), ('asyncClient', 'async_client.py', 'AsyncClient')):
        fn, where = sio.method(fname, cname, '__init__')
        for pname, suffix, kind in RECONNECT_PARAMS:
            node = default_of(fn, pname, where + '.__init__')
            ty, term = lean_value(node, kind, 'the default of %s of %s.__init__' % (pname, where))
            out.append((prefix + suffix[0].upper() + suffix[1:] + 'Default', ty, term,
                        '%s.__init__: `%s=%s` (as `%s(...)` sees it)' % (where, pname, ast.unparse(node), cname)))
    for lname, fname, cname in (('serverCallTimeout', 'server.py', 'Server'),
                                ('asyncServerCallTimeout', 'async_server.py', 'AsyncServer'),
                                ('clientCallTimeout', 'client.py', 'Client'),
                                ('asyncClientCallTimeout', 'async_client.py', 'AsyncClient')):
        fn, where = sio.method(fname, cname, 'call')
        node = default_of(fn, 'timeout', where + '.call')
        ty, term = lean_value(node, 'rat', 'the default timeout of %s.call' % where)
        out.append((lname, ty, term, '%s.call: `timeout=%s`' % (where, ast.unparse(node))))
    eio = engineio_pkg()
    for ns, sfile, scls, wanted in (('ServerReason', 'server.py', 'Server', SERVER_REASONS),
                                    ('AsyncServerReason', 'async_server.py', 'AsyncServer', SERVER_REASONS),
                                    ('ClientReason', 'client.py', 'Client', CLIENT_REASONS),
                                    ('AsyncClientReason', 'async_client.py', 'AsyncClient', CLIENT_REASONS)):
        strs, where = reason_strings(sio, eio, sfile, scls, wanted)
        for name, s in strs:
            out.append(('%s.%s' % (ns, name), 'List Char', lean_str(s), '%s: `%s = %r`' % (where, name, s)))
    return out


def generate(repo):
    lines = ['/- GENERATED by harness/translate_constants.py from src/socketio/{packet,server,async_server,',
             '   client,async_client,base_client,exceptions}.py and the installed engineio package (`reason`).',
             '   Regenerated on every run of a check that uses Sio/Props/Glue*.lean; do not edit. -/',
             'namespace Sio.Generated', '']
    for name, ty, term, doc in constants(repo):
        lines.append('/-- %s -/' % doc.replace('-/', '- /'))
        lines.append('def %s : %s := %s' % (name, ty, term))
        lines.append('')
    lines.append('end Sio.Generated')
    return '\n'.join(lines) + '\n'
