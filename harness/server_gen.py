"""Online scenario generator for the K4 kernel: produces the next op from what the harness has
observed so far (so that operations are mostly valid), from one rng."""
import copy

from . import gen as G
from . import pycodec

NS_POOL = ['/', '/a', '/b', '/zz']
EVENTS = ['msg', 'echo', 'other', 'é', 'x y']
ROOMS = ['r1', 'r2', 'lobby']
REASONS = ['transport close', 'transport error', 'ping timeout']

DEFAULT_WEIGHTS = {
    'open': 2, 'connect': 6, 'client_disconnect': 2, 'event': 8, 'ack': 3, 'emit': 4, 'emit_cb': 3,
    'call': 0, 'api_disconnect': 2, 'enter': 2, 'leave': 1, 'close': 1, 'rooms': 2, 'session': 0,
    'lost': 2, 'settle': 0, 'hostile': 0, 'partial_binary': 1, 'binary_across_end': 0,
}


def make_cfg(rng, profile):
    cfg = {
        'alwaysConnect': rng.random() < 0.35,
        'asyncHandlers': profile.get('async_handlers', rng.random() < 0.3),
        'served': rng.choice([['/'], ['/', '/a'], ['/', '/a', '/b'], '*']),
        'fn': [], 'cls': [], 'onConnect': [], 'onEvent': [], 'onDisconnect': [],
        'req_auth': rng.random() < 0.35,       # connect handlers declare a required auth parameter (harness only)
    }
    for ns in ['/', '/a', '/b']:
        style = rng.choice(['fn', 'fn', 'cls', 'none', 'partial'])
        if style == 'fn':
            evs = ['connect', 'disconnect', 'msg', 'echo']
            if rng.random() < 0.4:
                evs.append('*')
            cfg['fn'] += [[ns, e] for e in evs]
        elif style == 'partial':
            evs = rng.sample(['connect', 'disconnect', 'msg', '*'], rng.randint(1, 3))
            cfg['fn'] += [[ns, e] for e in evs]
        elif style == 'cls':
            ms = ['on_connect', 'on_disconnect', 'on_msg', 'on_echo']
            if rng.random() < 0.3:
                ms.remove(rng.choice(ms))
            cfg['cls'].append([ns, ms])
    r = rng.random()
    if r < 0.15:
        cfg['fn'] += [['*', e] for e in rng.sample(['connect', 'disconnect', 'msg', '*'], rng.randint(1, 4))]
    elif r < 0.25:
        cfg['cls'].append(['*', ['on_connect', 'on_disconnect', 'on_msg']])
    pc = profile.get('connect_outcomes', {'accept': 6, 'false': 1, 'refuse': 2, 'raise': 0})
    for _ in range(40):
        k = weighted(rng, pc)
        if k == 'refuse':
            n = rng.choice([0, 1, 2, 2, 3, 4])
            pool = [{'code': 7}, [1, 2], 'x', 0, '', [], {}, None, False, 5, True, 'why']
            args = [rng.choice(['denied', 'no', ''])] + [rng.choice(pool) for _ in range(max(0, n - 1))]
            cfg['onConnect'].append({'refuse': args[:n]})
        else:
            cfg['onConnect'].append(k)
    p_raise = profile.get('event_raise', 0.0)
    # values the application keeps and returns again and again (the harness returns the SAME object for equal
    # script values): a few per configuration, mostly with byte strings inside nested lists / dicts
    assets = [gen_asset(rng) for _ in range(rng.randint(1, 3))]
    p_asset = profile.get('asset_p', 0.3)
    for _ in range(80):
        if rng.random() < p_raise:
            cfg['onEvent'].append('raise')
        elif rng.random() < p_asset:
            cfg['onEvent'].append({'ret': copy.deepcopy(rng.choice(assets))})
        else:
            cfg['onEvent'].append({'ret': gen_ret(rng)})
    p_draise = profile.get('disconnect_raise', 0.0)
    for _ in range(40):
        cfg['onDisconnect'].append('raise' if rng.random() < p_draise else 'ok')
    # harness-only: which of the outcomes accept / return None / disconnect handled a COROUTINE handler realises by
    # letting asyncio.CancelledError escape ('await': out of an await on a cancelled future, 'bare': raised directly);
    # the model is not told (the documented behaviour is that of the scripted outcome)
    p_cancel = profile.get('cancel_p', 0.4)
    cfg['cancel'] = []
    for kind, key, neutral in (('connect', 'onConnect', 'accept'), ('event', 'onEvent', {'ret': None}),
                               ('disconnect', 'onDisconnect', 'ok')):
        for i, out in enumerate(cfg[key]):
            if out == neutral and rng.random() < p_cancel:
                cfg['cancel'].append([kind, i, rng.choice(['await', 'await', 'bare'])])
    return cfg


def gen_asset(rng):
    """a value an application typically keeps: a record (dict / list, sometimes inside a tuple) that contains byte
    strings below the top level"""
    def blob():
        return G.gen_bytes(rng)
    r = rng.random()
    if r < 0.3:
        v = {'name': rng.choice(['logo', 'beep', 'é']), 'body': blob()}
    elif r < 0.5:
        v = {'name': 'parts', 'parts': [blob() for _ in range(rng.randint(1, 3))], 'n': rng.randint(0, 9)}
    elif r < 0.65:
        v = [blob(), rng.choice(['x', 1, None]), {'k': blob()}]
    elif r < 0.8:
        v = [[blob()], rng.randint(0, 5)]
    else:
        v = G.gen_value(rng, 2, 0.5)
        if not isinstance(v, (list, dict)):
            v = {'v': v, 'raw': blob()}
    r = rng.random()
    if r < 0.2:
        return ('ok', v)                   # several return values, the record among them
    if r < 0.3:
        return (v, blob())
    return v


def gen_ret(rng):
    r = rng.random()
    if r < 0.25:
        return None
    if r < 0.45:
        return G.gen_value(rng, 0, 0.2, scalars_only=True)
    if r < 0.6:
        return [G.gen_value(rng, 1, 0.2) for _ in range(rng.randint(0, 3))]
    if r < 0.75:
        return G.gen_value(rng, 2, 0.2)
    if r < 0.9:
        return tuple(G.gen_value(rng, 1, 0.25) for _ in range(rng.randint(0, 3)))
    return G.gen_bytes(rng)


def weighted(rng, w):
    tot = sum(w.values())
    x = rng.random() * tot
    for k, v in w.items():
        x -= v
        if x < 0:
            return k
    return k


class Scenario:
    """Keeps the harness's own view: open transports, who is connected (from the packets the
    server sent), outstanding server callbacks."""

    def __init__(self, rng, profile):
        self.rng = rng
        self.profile = profile
        self.weights = dict(DEFAULT_WEIGHTS)
        self.weights.update(profile.get('weights', {}))
        self.open = []            # transport ids
        self.ntrans = 0
        self.conn = {}            # (tid, ns) -> sid name (the server told the client)
        self.outstanding = []     # (tid, ns, id)
        self.used_ack = []        # (tid, ns, id) already acknowledged
        self.next_cb = 0
        self.pending_frames = []  # rest of a multi-frame client packet
        self.max_t = profile.get('max_transports', 4)
        self.gone = []            # session ids that were connected once
        self.emit_pool = []       # values the application emits more than once (the same object each time)
        # application code that holds on to a session id for too long, or forgets / mixes up the namespace argument:
        # every session id the server announced, with the transport and namespace it was announced on (live AND ended
        # ones); `stale_p` = how often a server API call is issued with a (sid, namespace) pair naming no live session
        self.home = {}            # sid name -> (tid, ns)
        self.stale_p = profile.get('stale_p', 0.12)
        # enter_room() with such a pair is opt-in per profile: on the unchanged library a refused enter_room() on a
        # namespace that has clients leaves an empty room behind (and with it the namespace's table for good), which
        # C11's residue probe reports -- reported to the integrator, not yet a recorded finding
        self.stale_enter_p = profile.get('stale_enter_p', self.stale_p if hasattr(self, 'stale_p') else 0.12)

    # ---- learn from what the server sent
    def learn(self, op, obs):
        for tid, frames in obs['sends'].items():
            try:
                pkts = pycodec.decode_stream(frames)
            except Exception:   # noqa
                continue
            for p in pkts:
                if p['type'] == 0 and isinstance(p['data'], dict) and 'sid' in p['data']:
                    self.conn[(tid, p['ns'])] = p['data']['sid']
                    if isinstance(p['data']['sid'], str):
                        self.home.setdefault(p['data']['sid'], (tid, p['ns']))
                elif p['type'] == 1:
                    self.conn.pop((tid, p['ns']), None)
                elif p['type'] in (2, 5) and p['id'] is not None:
                    self.outstanding.append((tid, p['ns'], p['id']))
        losts = [op] if op['op'] == 'lost' else [o for o in op.get('during', []) if o['op'] == 'lost' and obs.get('exc') != 'RuntimeError']
        for lo in losts:
            self.open = [t for t in self.open if t != lo['t']]
            for k in [k for k in self.conn if k[0] == lo['t']]:
                del self.conn[k]
        if op['op'] == 'frame' and op['text'][:1] == '1' and not op.get('_hostile'):
            try:
                p = pycodec.decode_text(op['text'])
                self.conn.pop((op['t'], p['ns']), None)
            except Exception:   # noqa
                pass
        if op['op'] == 'disconnect':
            for k in [k for k, v in self.conn.items() if v == op['sid'] and k[1] == op['ns']]:
                del self.conn[k]

    def sids(self, ns=None):
        return [v for k, v in self.conn.items() if ns is None or k[1] == ns]

    # ---- next op
    def next(self):
        rng = self.rng
        for key, sid in self.conn.items():
            if isinstance(sid, str):
                self.home.setdefault(sid, key)
        while self.pending_frames:
            op = self.pending_frames.pop(0)
            if callable(op):
                op = op()         # a follow-up that depends on what the server did meanwhile (None = not applicable)
            if op is not None:
                return op
        for _ in range(50):
            k = weighted(rng, self.weights)
            op = getattr(self, 'g_' + k)()
            if op is not None:
                return op
        return {'op': 'open', 't': self._new_t()}

    # ---- (sid, namespace) pairs that name NO live session
    def ended(self):
        """[(sid, tid, ns)] of the session ids the server announced once and that are not connected any more"""
        live = set(self.conn.values())
        return [(sid, t, ns) for sid, (t, ns) in self.home.items() if sid not in live]

    def _stale_pair(self):
        """-> (kind, sid, ns) naming no live session, or None.  'ended': a session id whose connection has ended,
        with its own namespace; 'ended_other_ns': the same with another namespace; 'wrong_ns': a LIVE session id
        with a namespace it does not belong to (the namespace argument forgotten, i.e. '/', or mixed up).  Pairs
        whose namespace has clients right now (the server's tables for it exist) are preferred."""
        rng = self.rng
        cands = []
        for sid, t, ns in self.ended()[-8:]:
            cands.append(('ended', sid, ns))
            cands.append(('ended_other_ns', sid, rng.choice([n for n in NS_POOL[:3] if n != ns])))
        for (t, ns), sid in self.conn.items():
            if ns != '/' and rng.random() < 0.5:
                ns2 = '/'
            else:
                ns2 = rng.choice([n for n in NS_POOL[:3] if n != ns])
            cands.append(('wrong_ns', sid, ns2))
        if not cands:
            return None
        populated = [c for c in cands if self.sids(c[2])]
        if populated and rng.random() < 0.8:
            cands = populated
        kind = weighted(rng, {k: w for k, w in (('ended', 3), ('wrong_ns', 3), ('ended_other_ns', 1))
                              if any(c[0] == k for c in cands)})
        return rng.choice([c for c in cands if c[0] == kind])

    def _stale_enter(self):
        """enter_room() with a pair that names no live session, then what an application does with a room: asks for
        the rooms of that session id and emits to the room"""
        c = self._stale_pair()
        if c is None:
            return None
        kind, sid, ns = c
        rng = self.rng
        room = rng.choice(ROOMS)
        ops = self._populate(sid, ns) + [
            {'op': 'enter', 'sid': sid, 'ns': ns, 'room': room, '_stale': kind},
            {'op': 'rooms', 'sid': sid, 'ns': ns, '_stale': kind},
            {'op': 'emit', 'ev': rng.choice(EVENTS), 'data': gen_ret(rng), 'ns': ns, 'to': {'one': room}, 'skip': [],
             'cb': None, '_stale': kind}]
        self.pending_frames = ops[1:] + self.pending_frames
        return ops[0]

    def _populate(self, sid, ns):
        """[CONNECT of another client to `ns`] when nobody is connected there (mostly): a namespace that has clients is
        where the server's own tables for it exist, so that a lookup of a foreign / ended id gets past the first test"""
        rng = self.rng
        if self.sids(ns) or rng.random() < 0.25:
            return []
        others = [t for t in self.open if t != self.home.get(sid, (None, None))[0] and (t, ns) not in self.conn]
        pre = []
        if not others:
            if len(self.open) >= self.max_t:
                return []
            others = [self._new_t()]             # a new client
            pre = [{'op': 'open', 't': others[0]}]

        def connect(first=False):
            if not first and self.sids(ns):
                return None                      # somebody is connected there by now
            ts = [t for t in others if t in self.open and (t, ns) not in self.conn]
            return {'op': 'frame', 't': rng.choice(ts), 'text': pycodec.encode(0, ns, None, None)[0]} if ts else None
        return pre + [connect(True), connect, connect]       # the connect handler may refuse: two more attempts

    def _stale_session(self):
        """a session call whose (sid, namespace) pair names no live session -- typically the namespace argument
        forgotten ('/') or mixed up in code that serves another namespace of the same client, before or after that
        client connects there -- followed by reads under the correct pairs (and, when the client is not connected to
        that namespace, by its CONNECT there and a read of the new session)"""
        c = self._stale_pair()
        if c is None:
            return None
        kind, sid, ns = c
        op = self._session_op(sid, ns)
        op['_stale'] = kind
        before = self._populate(sid, ns)
        follow = []
        if kind == 'wrong_ns':
            t, ns_home = self.home[sid]
            follow.append({'op': 'get_session', 'sid': sid, 'ns': ns_home})
            if (t, ns) in self.conn:
                op['_stale'] = 'wrong_ns.client_connected_there'
                follow.append({'op': 'get_session', 'sid': self.conn[(t, ns)], 'ns': ns})
            elif t in self.open:
                op['_stale'] = 'wrong_ns.client_connects_there_later'
                follow.append({'op': 'frame', 't': t, 'text': pycodec.encode(0, ns, None, None)[0]})

                def later(t=t, ns=ns):
                    s2 = self.conn.get((t, ns))
                    return {'op': 'get_session', 'sid': s2, 'ns': ns, '_after_stale': True} if s2 else None
                follow.append(later)
        ops = before + [op] + follow
        self.pending_frames = ops[1:] + self.pending_frames
        return ops[0]

    def _new_t(self):
        self.ntrans += 1
        t = 'T%d' % self.ntrans
        self.open.append(t)
        return t

    def g_open(self):
        if len(self.open) >= self.max_t:
            return None
        return {'op': 'open', 't': self._new_t()}

    def _frames(self, t, frames):
        ops = []
        for f in frames:
            if isinstance(f, str):
                ops.append({'op': 'frame', 't': t, 'text': f})
            else:
                ops.append({'op': 'frameval', 't': t, 'v': f})
        self.pending_frames = ops[1:] + self.pending_frames
        return ops[0]

    def g_connect(self):
        if not self.open:
            return None
        rng = self.rng
        t = rng.choice(self.open)
        ns = rng.choice(NS_POOL[:3]) if rng.random() < 0.9 else '/zz'
        if (t, ns) in self.conn and rng.random() < 0.7:
            return None     # repeated CONNECT on a connected namespace: sometimes
        auth = rng.choice([None, None, {}, {'token': 'abc'}, {'user': 'u', 'roles': [1, 2]}, [1], 'tok', 0])
        return self._frames(t, pycodec.encode(0, ns, None, auth))

    def g_client_disconnect(self):
        cands = list(self.conn) if self.rng.random() < 0.85 else [(t, ns) for t in self.open for ns in NS_POOL]
        if not cands:
            return None
        t, ns = self.rng.choice(cands)
        return self._frames(t, pycodec.encode(1, ns))

    def g_event(self):
        rng = self.rng
        if rng.random() < 0.9:
            cands = list(self.conn)
        else:
            cands = [(t, ns) for t in self.open for ns in NS_POOL]     # not connected there
        if not cands:
            return None
        t, ns = rng.choice(cands)
        ev = rng.choice(EVENTS) if rng.random() < 0.85 else G.gen_event_name(rng)
        if rng.random() < 0.04:
            ev = '*'                  # an event literally named like the catch-all key
        if ev in ('connect', 'disconnect'):
            ev = 'msg'
        args = [G.gen_value(rng, 2, self.profile.get('bytes_p', 0.2)) for _ in range(rng.randint(0, 3))]
        pid = rng.choice([None, None, 0, 1, 7, rng.randint(0, 10**6), 10**30])
        return self._frames(t, pycodec.encode(2, ns, pid, [ev] + args))

    def g_partial_binary(self):
        """a binary event whose attachments never all arrive (followed by whatever comes next)"""
        rng = self.rng
        if not self.conn:
            return None
        t, ns = rng.choice(list(self.conn))
        frames = pycodec.encode(2, ns, rng.choice([None, 3]), ['msg', b'ab', {'k': b'cd'}])
        keep = rng.randint(1, len(frames) - 1)
        return self._frames(t, frames[:keep])

    def g_binary_across_end(self):
        """a binary event (header + attachments) addressed to namespace B of a transport, and BETWEEN the header and the
        remaining attachments the server ends a session with disconnect(): another namespace of the same transport
        (mostly), all its other namespaces, a session of another transport, or B itself; then the attachments arrive"""
        rng = self.rng
        multi = sorted(set(t for (t, _n) in self.conn if sum(1 for k in self.conn if k[0] == t) >= 2))
        if not multi:
            # work towards a transport connected to two namespaces
            ts = sorted(set(t for (t, _n) in self.conn if t in self.open))
            if not ts:
                return None
            t = rng.choice(ts)
            free = [n for n in NS_POOL[:3] if (t, n) not in self.conn]
            return self._frames(t, pycodec.encode(0, rng.choice(free), None, None)) if free else None
        t = rng.choice(multi)
        nss = sorted(n for (t2, n) in self.conn if t2 == t)
        b = rng.choice(nss)
        others = [n for n in nss if n != b]
        elsewhere = sorted(k for k in self.conn if k[0] != t)
        variant = weighted(rng, {k: w for k, w in (('other_namespace', 7), ('all_other_namespaces', 1),
                                                   ('same_namespace', 1), ('other_transport', 1))
                                 if k != 'other_transport' or elsewhere})
        if variant == 'other_namespace':
            ends = [(t, rng.choice(others))]
        elif variant == 'all_other_namespaces':
            ends = [(t, n) for n in others]
        elif variant == 'same_namespace':
            ends = [(t, b)]
        else:
            ends = [rng.choice(elsewhere)]
        ev = rng.choice(EVENTS[:3])
        args = [G.gen_bytes(rng)] + [rng.choice([{'k': G.gen_bytes(rng)}, [G.gen_bytes(rng), 1], 'x', 7, G.gen_bytes(rng)])
                                     for _ in range(rng.randint(0, 2))]
        rng.shuffle(args)
        frames = pycodec.encode(2, b, rng.choice([None, None, 0, 3, rng.randint(0, 10**6)]), [ev] + args)
        keep = rng.randint(1, len(frames) - 1)

        def fr(f):
            return {'op': 'frame', 't': t, 'text': f} if isinstance(f, str) else {'op': 'frameval', 't': t, 'v': f}
        between = [{'op': 'disconnect', 'sid': self.conn[k], 'ns': k[1], '_across': variant} for k in ends]
        if rng.random() < 0.3:
            # other server-side activity while the packet is incomplete: a broadcast on one of the namespaces
            between.insert(rng.randint(0, len(between)), {'op': 'emit', 'ev': rng.choice(EVENTS), 'data': gen_ret(rng),
                                                          'ns': rng.choice(nss), 'to': None, 'skip': [], 'cb': None})
        ops = [fr(f) for f in frames[:keep]] + between + [fr(f) for f in frames[keep:]]
        self.pending_frames = ops[1:] + self.pending_frames
        return ops[0]

    def g_ack(self):
        rng = self.rng
        r = rng.random()
        if r < 0.5 and self.outstanding:
            t, ns, i = rng.choice(self.outstanding)
            self.outstanding.remove((t, ns, i))
            self.used_ack.append((t, ns, i))
        elif r < 0.65 and self.used_ack:
            t, ns, i = rng.choice(self.used_ack)            # duplicate
        elif r < 0.8 and self.outstanding and len(self.open) > 1:
            _, ns, i = rng.choice(self.outstanding)          # issued to another client
            t = rng.choice(self.open)
        elif self.conn:
            t, ns = rng.choice(list(self.conn))
            i = rng.choice([0, 1, 2, 99, 10**20])            # never issued / id 0
        else:
            return None
        if t not in self.open:
            return None
        args = [G.gen_value(rng, 1, 0.2) for _ in range(rng.randint(0, 3))]
        frames = pycodec.encode(3, ns, i, args)
        if len(frames) == 1 and self.profile.get('burst_acks') and rng.random() < 0.3:
            # the same acknowledgement twice at the same time (two concurrent requests of one client)
            f = {'op': 'frame', 't': t, 'text': frames[0]}
            return {'op': 'burst', 'frames': [f, dict(f)]}
        return self._frames(t, frames)

    def _target(self, ns):
        rng = self.rng
        r = rng.random()
        sids = self.sids(ns)
        if r < 0.3:
            return None
        if r < 0.55 and sids:
            return {'one': rng.choice(sids)}
        if r < 0.8:
            return {'one': rng.choice(ROOMS)}
        pool = ROOMS + sids + [e[0] for e in self.ended()[-2:]]     # also the personal room of a session that ended
        return {'many': rng.sample(pool, rng.randint(1, min(3, len(pool))))}

    def g_emit(self, cb=False):
        rng = self.rng
        ns = rng.choice(NS_POOL[:3]) if rng.random() < 0.9 else '/zz'
        ev = rng.choice(EVENTS)
        if self.emit_pool and rng.random() < 0.3:
            data = copy.deepcopy(rng.choice(self.emit_pool))
        else:
            data = gen_asset(rng) if rng.random() < 0.15 else gen_ret(rng)
            if isinstance(data, (list, dict, tuple)) and len(self.emit_pool) < 3:
                self.emit_pool.append(copy.deepcopy(data))
        op = {'op': 'emit', 'ev': ev, 'data': data, 'ns': ns, 'to': self._target(ns), 'skip': [], 'cb': None}
        sids = self.sids(ns)
        r = rng.random()
        if sids and r < 0.2:
            op['skip'] = [rng.choice(sids)]
            op['skip_scalar'] = True
        elif sids and r < 0.4:
            op['skip'] = rng.sample(sids, rng.randint(1, min(2, len(sids))))
        if cb:
            if sids and rng.random() < 0.8:
                op['to'] = {'one': rng.choice(sids)}
            op['cb'] = self.next_cb
            self.next_cb += 1
        return op

    def g_emit_cb(self):
        return self.g_emit(cb=True)

    def g_call(self):
        rng = self.rng
        cands = [(k, v) for k, v in self.conn.items()]
        if not cands:
            return None
        (t, ns), sid = rng.choice(cands)
        during = []
        r = rng.random()
        # the id the call() will get is not known to the harness: the nested ACK uses a guess that is
        # right when the harness's count of ids handed to this sid is right
        guess = 1 + sum(1 for (tt, nn, _i) in self.outstanding + self.used_ack if (tt, nn) == (t, ns))
        if r < 0.5:
            args = [G.gen_value(rng, 1, 0.2) for _ in range(rng.randint(0, 3))]
            during = [{'op': 'frame', 't': t, 'text': f} if isinstance(f, str) else {'op': 'frameval', 't': t, 'v': f}
                      for f in pycodec.encode(3, ns, guess, args)]
        elif r < 0.65:
            during = [{'op': 'lost', 't': t, 'reason': 'transport close'}]
        elif r < 0.8:
            during = [{'op': 'frame', 't': t, 'text': pycodec.encode(3, ns, guess + 5, [])[0]}]
        return {'op': 'call', 'ev': rng.choice(EVENTS), 'data': gen_ret(rng), 'ns': ns, 'sid': sid, 'during': during}

    def g_api_disconnect(self):
        rng = self.rng
        if self.conn and rng.random() < 0.85:
            (t, ns), sid = rng.choice(list(self.conn.items()))
            return {'op': 'disconnect', 'sid': sid, 'ns': ns}
        return {'op': 'disconnect', 'sid': rng.choice(self.sids() + [e[0] for e in self.ended()[-3:]] + ['nobody']),
                'ns': rng.choice(NS_POOL)}

    def g_enter(self):
        if self.rng.random() < self.stale_enter_p:
            op = self._stale_enter()
            if op is not None:
                return op
        if not self.conn:
            return None
        (t, ns), sid = self.rng.choice(list(self.conn.items()))
        # rooms named like session ids, unless the profile's probe searches the object graph for session-id strings
        room = self.rng.choice(ROOMS + ([] if self.profile.get('no_sid_rooms') else self.sids(ns)))
        return {'op': 'enter', 'sid': sid, 'ns': ns, 'room': room}

    def g_leave(self):
        rng = self.rng
        if not self.conn or rng.random() < 0.25:
            # leaving a room never entered / on a namespace nobody is connected to / with a stale or unknown sid
            sid = rng.choice(self.sids() + self.gone + ['nobody'])
            return {'op': 'leave', 'sid': sid, 'ns': rng.choice(NS_POOL), 'room': rng.choice(ROOMS)}
        (t, ns), sid = rng.choice(list(self.conn.items()))
        return {'op': 'leave', 'sid': sid, 'ns': ns, 'room': rng.choice(ROOMS)}

    def g_close(self):
        return {'op': 'close', 'ns': self.rng.choice(NS_POOL), 'room': self.rng.choice(ROOMS + ['nope'])}

    def g_rooms(self):
        if self.rng.random() < self.stale_p:
            c = self._stale_pair()
            if c is not None:
                return {'op': 'rooms', 'sid': c[1], 'ns': c[2], '_stale': c[0]}
        if not self.conn:
            return None
        (t, ns), sid = self.rng.choice(list(self.conn.items()))
        return {'op': 'rooms', 'sid': sid, 'ns': ns}

    def g_session(self):
        rng = self.rng
        if rng.random() < self.stale_p:
            op = self._stale_session()
            if op is not None:
                return op
        if not self.conn:
            return None
        (t, ns), sid = rng.choice(list(self.conn.items()))
        return self._session_op(sid, ns)

    def _session_during(self, sid, ns):
        """a session() block during which save_session() is called (by a helper the block calls, or by another
        handler): for the SAME session, for another namespace of the same client, for another client, or with a
        pair that names no live session (the helper's call fails inside the block); the block modifies its dict
        before and after that call and exits.  Followed by reads of both sessions."""
        rng = self.rng
        t = self.home.get(sid, (None, None))[0]
        cands = {'same': [(sid, ns)]}
        cands['other_ns'] = [(s2, n2) for (t2, n2), s2 in self.conn.items() if t2 == t and n2 != ns]
        cands['other_client'] = [(s2, n2) for (t2, n2), s2 in self.conn.items() if t2 != t]
        same_ns = [c for c in cands['other_client'] if c[1] == ns]
        if same_ns and rng.random() < 0.7:
            cands['other_client'] = same_ns
        cands['no_such_session'] = [(sid, n2) for n2 in NS_POOL[:3] if n2 != ns and (t, n2) not in self.conn]
        variant = weighted(rng, {k: w for k, w in (('same', 5), ('other_ns', 2), ('other_client', 2),
                                                   ('no_such_session', 1)) if cands[k]})
        tsid, tns = rng.choice(cands[variant])
        op = {'op': 'session_block_save', 'sid': sid, 'ns': ns, 'k': rng.choice(['u', 'v', 'n']),
              'v': G.gen_value(rng, 1, 0.0), '_variant': variant,
              'save': {'sid': tsid, 'ns': tns, 'v': {rng.choice(['u', 'v', 'w', 'z']): G.gen_value(rng, 1, 0.0)}}}
        if rng.random() < 0.5:
            op['k0'], op['v0'] = rng.choice(['u', 'p']), G.gen_value(rng, 1, 0.0)     # a modification before the call
        follow = [{'op': 'get_session', 'sid': sid, 'ns': ns}]
        if variant in ('other_ns', 'other_client'):
            follow.append({'op': 'get_session', 'sid': tsid, 'ns': tns})
        self.pending_frames = follow + self.pending_frames
        return op

    def _nested_other(self, op, may_connect=True):
        """the INNER block of a nested pair of session() blocks is for ANOTHER session: another namespace of the same
        client (mostly; when the client has no other namespace yet it first connects to one), another client's, or a
        pair that names no live session (the inner entry raises inside the outer block); the keys may coincide.
        Followed by reads of both sessions."""
        rng = self.rng
        sid, ns = op['sid'], op['ns']
        t = self.home.get(sid, (None, None))[0]
        cands = {'other_ns': [(s2, n2) for (t2, n2), s2 in self.conn.items() if t2 == t and n2 != ns],
                 'other_client': [(s2, n2) for (t2, n2), s2 in self.conn.items() if t2 != t],
                 'no_such_session': [(sid, n2) for n2 in NS_POOL[:3] if n2 != ns and (t, n2) not in self.conn]}
        free = [n for n in NS_POOL[:3] if (t, n) not in self.conn]
        if (may_connect and not cands['other_ns'] and free and t in self.open and self.conn.get((t, ns)) == sid
                and rng.random() < 0.8):
            def later():
                return self._nested_other(op, False) if self.conn.get((t, ns)) == sid else None
            self.pending_frames = [later] + self.pending_frames
            return {'op': 'frame', 't': t, 'text': pycodec.encode(0, rng.choice(free), None, None)[0]}
        variant = weighted(rng, {k: w for k, w in (('other_ns', 8), ('other_client', 2), ('no_such_session', 1))
                                 if cands[k]})
        isid, ins = rng.choice(cands[variant])
        op['inner'] = {'sid': isid, 'ns': ins}
        op['_variant'] = variant
        if rng.random() < 0.4:
            op['k2'] = op['k']
        self.pending_frames = [{'op': 'get_session', 'sid': sid, 'ns': ns}] + (
            [{'op': 'get_session', 'sid': isid, 'ns': ins}] if variant != 'no_such_session' else []
        ) + self.pending_frames
        return op

    def _session_op(self, sid, ns):
        rng = self.rng
        p_during = self.profile.get('session_during_p', 0.0)       # opt-in per profile (C16)
        if p_during and rng.random() < p_during:
            return self._session_during(sid, ns)
        r = rng.random()
        if r < 0.35:
            return {'op': 'save_session', 'sid': sid, 'ns': ns,
                    'v': {rng.choice(['u', 'v', 'w']): G.gen_value(rng, 2, 0.0)}}
        if r < 0.6:
            return {'op': 'get_session', 'sid': sid, 'ns': ns}
        if r < 0.72:
            op = {'op': 'session_nested', 'sid': sid, 'ns': ns, 'k': rng.choice(['u', 'v']), 'v': G.gen_value(rng, 1, 0.0),
                  'k2': rng.choice(['n', 'w']), 'v2': G.gen_value(rng, 1, 0.0)}
            p_other = self.profile.get('session_nested_other_p', 0.0)      # opt-in per profile (C16)
            if p_other and rng.random() < p_other:
                return self._nested_other(op)
            return op
        op = {'op': 'session_block', 'sid': sid, 'ns': ns, 'k': rng.choice(['u', 'v', 'n']),
              'v': G.gen_value(rng, 1, 0.0)}
        if rng.random() < 0.25:
            op['raise_inside'] = True      # the application raises inside the block, after the mutation
        return op

    def g_lost(self):
        if not self.open:
            return None
        return {'op': 'lost', 't': self.rng.choice(self.open), 'reason': self.rng.choice(REASONS)}

    def g_settle(self):
        return {'op': 'settle'}

    def g_hostile(self):
        return None     # overridden by the C12 module
