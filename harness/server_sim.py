"""K4 correspondence: one scenario executed on a real server (threaded or asyncio family) and on
the Lean model `Sio.Server.step`, observation by observation.

An *op* is a dict in the driver's wire vocabulary, with session ids written as names
(s0, s1, ... by order of allocation).  `Runner.do(op)` performs it on the implementation and
returns the canonical observation; `model_run(cfg, ops)` returns the model's observations.
"""
import asyncio
import collections
import copy
import json

from . import common as C
from .world import ServerWorld, SidNames, HandlerError

import socketio
from socketio import packet as sp
from socketio import exceptions as sx


# ------------------------------------------------------------------ configuration

def default_cfg():
    return {
        'alwaysConnect': False, 'asyncHandlers': False, 'served': ['/'],
        'fn': [],            # [[ns, ev], ...]   (both may be '*')
        'cls': [],           # [[ns, [method names]], ...]
        'onConnect': [], 'onEvent': [], 'onDisconnect': [],
    }


def cfg_wire(cfg):
    return {'cfg': {
        'alwaysConnect': cfg['alwaysConnect'], 'asyncHandlers': cfg['asyncHandlers'],
        'served': None if cfg['served'] == '*' else [C.s2w(n) for n in cfg['served']],
        'fn': [[C.s2w(ns), C.s2w(ev)] for ns, ev in cfg['fn']],
        'cls': [[C.s2w(ns), [C.s2w(m) for m in ms]] for ns, ms in cfg['cls']],
        'onConnect': [conn_wire(x) for x in cfg['onConnect']],
        'onEvent': [ev_wire(x) for x in cfg['onEvent']],
        'onDisconnect': list(cfg['onDisconnect']),
    }}


def conn_wire(x):
    if isinstance(x, str):
        return x
    return {'refuse': [C.j2w(a) for a in x['refuse']]}


def ev_wire(x):
    if x == 'raise':
        return 'raise'
    return {'ret': C.data2w(x['ret'])}


# ------------------------------------------------------------------ real side

class _Cancel:
    """what `_invoked` hands to a coroutine handler that is to end by letting asyncio.CancelledError escape"""

    def __init__(self, style):
        self.style = style

    async def realise(self):
        if self.style == 'await':
            # the handler waits for a worker future of its own that has been cancelled: a real CancelledError
            # delivered by an await
            worker = asyncio.get_running_loop().create_future()
            worker.cancel()
            await worker
        raise asyncio.CancelledError()


NEUTRAL = {'connect': 'accept', 'event': {'ret': None}, 'disconnect': 'ok'}


class Runner:
    def __init__(self, mode, cfg, coroutine_handlers=False, manager=None, server_opts=None, active=False):
        self.mode = mode
        self.active = active
        self.cfg = cfg
        opts = dict(always_connect=cfg['alwaysConnect'], async_handlers=cfg['asyncHandlers'],
                    namespaces=('*' if cfg['served'] == '*' else list(cfg['served'])))
        opts.update(server_opts or {})
        self.msgpack = opts.get('serializer') == 'msgpack'
        self.w = ServerWorld(mode, manager=manager, **opts)
        self.sio = self.w.sio
        self.names = SidNames()
        self.records = []
        self.counters = {'connect': 0, 'event': 0, 'disconnect': 0}
        self.coro = coroutine_handlers and self.w.is_async
        self.codec = None
        self.generated = set()
        # application-held values: ONE object per distinct scripted value (keyed by repr); handlers return it and
        # emit()/call() pass it every time, the way an application serves a cached asset / a module constant
        self.held = {}
        self.held_reported = set()
        self.stats = collections.Counter()
        # harness-only part of the script: [[kind, index, style], ...] = outcomes (accept / ret None / ok) that a
        # COROUTINE handler realises by letting asyncio.CancelledError escape; the model keeps the scripted outcome
        self.cancel = {(k, i): st for k, i, st in cfg.get('cancel', [])}
        self.runtime_regs = False     # a 'register' op was executed
        self.gens = {}                # ('fn', ns, ev) / ('cls', ns) -> number of run-time registrations of that key
        orig_gen = self.w.eio.generate_id

        def gen():
            i = orig_gen()
            self.generated.add(i)
            return i
        self.w.eio.generate_id = gen
        self._install_handlers()
        self.fresh_slots = self.graph_slots()

    # ---- handlers
    def _kind(self, ev):
        return ev if ev in ('connect', 'disconnect') else 'event'

    def _outcome(self, kind):
        key = {'connect': 'onConnect', 'event': 'onEvent', 'disconnect': 'onDisconnect'}[kind]
        lst = self.cfg[key]
        i = self.counters[kind]
        self.counters[kind] += 1
        self._last_index = i
        if i < len(lst):
            return lst[i]
        return NEUTRAL[kind]

    def hold(self, v, what):
        """the object the application keeps for the scripted value `v` (containers only: scalars and byte strings
        are immutable)"""
        if not isinstance(v, (list, dict, tuple)):
            return copy.deepcopy(v)
        key = repr(v)
        h = self.held.get(key)
        if h is None:
            h = self.held[key] = {'obj': copy.deepcopy(v), 'uses': 0, 'bytes': _nested_bytes(v)}
        h['uses'] += 1
        self.stats['app_value.%s' % what] += 1
        if h['uses'] > 1:
            self.stats['app_value.%s.again' % what] += 1
            if h['bytes']:
                self.stats['app_value.%s.again.nested_bytes' % what] += 1
        return h['obj']

    def held_modified(self):
        """application-held objects that no longer equal the value they were created with (reported once each)"""
        out = []
        for key, h in self.held.items():
            if key not in self.held_reported and repr(h['obj']) != key:
                self.held_reported.add(key)
                out.append('%s is now %s' % (key[:160], repr(h['obj'])[:160]))
        return out

    def _active_plan(self, slot, kind, args):
        """what an 'active' handler does besides returning: emit to the client it was called for"""
        if not self.active or kind == 'connect':
            return None
        pos = sid_position(slot)
        if len(args) <= pos or not isinstance(args[pos], str):
            return None
        n = self.counters['connect'] + self.counters['event'] + self.counters['disconnect']
        if n % 3 != 0:
            return None
        ns = slot[1] if slot[1] != '*' else (args[pos - 1] if pos >= 1 and isinstance(args[pos - 1], str) else '/')
        return {'event': 'bye' if kind == 'disconnect' else 'note', 'data': {'n': n}, 'to': args[pos], 'namespace': ns}

    def _invoked(self, slot, kind, args, gen=0):
        args = [a for a in args if not (isinstance(a, dict) and 'verif.tid' in a)]
        self.records.append(('invoke', slot, list(args)))
        if self.runtime_regs:
            # which of the handlers registered under this key so far ran (0 = the one the server started with)
            self.records.append(('handler_gen', slot, gen))
        out = self._outcome(kind)
        if self.coro and out == NEUTRAL[kind] and (kind, self._last_index) in self.cancel:
            # accepted / returned None / disconnect handled -- but the coroutine ends with CancelledError
            style = self.cancel[(kind, self._last_index)]
            self.records.append(('handler_cancelled', slot))
            self.stats['handler_cancelled.%s.%s.%s' % (kind, slot[0], style)] += 1
            return _Cancel(style)
        if kind == 'connect':
            if out == 'accept':
                return None
            if out == 'false':
                return False
            if out == 'raise':
                self.records.append(('handler_raised', slot))
                raise HandlerError('scripted')
            raise sx.ConnectionRefusedError(*out['refuse'])
        if out == 'raise':
            self.records.append(('handler_raised', slot))
            raise HandlerError('scripted')
        if kind == 'event':
            return self.hold(out['ret'], 'returned')
        return None

    def _mk(self, slot, kind, gen=0):
        if kind == 'connect' and self.cfg.get('req_auth') and slot[1] != '*':
            # connect handler with a REQUIRED auth parameter: a CONNECT without auth payload reaches it through
            # the library's TypeError retry path, with auth=None
            if self.coro:
                async def h3(sid, environ, auth):
                    r = self._invoked(slot, kind, (sid, environ) + (() if auth is None else (auth,)), gen)
                    if isinstance(r, _Cancel):
                        await r.realise()
                    return r
            else:
                def h3(sid, environ, auth):
                    return self._invoked(slot, kind, (sid, environ) + (() if auth is None else (auth,)), gen)
            return h3
        if self.coro:
            async def h(*args):
                plan = self._active_plan(slot, kind, [a for a in args if not (isinstance(a, dict) and 'verif.tid' in a)])
                if plan:
                    await self.sio.emit(plan['event'], plan['data'], to=plan['to'], namespace=plan['namespace'])
                r = self._invoked(slot, kind, args, gen)
                if isinstance(r, _Cancel):
                    await r.realise()
                return r
        else:
            def h(*args):
                plan = self._active_plan(slot, kind, [a for a in args if not (isinstance(a, dict) and 'verif.tid' in a)])
                if plan and not self.w.is_async:
                    self.sio.emit(plan['event'], plan['data'], to=plan['to'], namespace=plan['namespace'])
                return self._invoked(slot, kind, args, gen)
        return h

    def _install_handlers(self):
        for ns, ev in self.cfg['fn']:
            self.sio.on(ev, self._mk(('fn', ns, ev), self._kind(ev)), namespace=ns)
        self._install_cls(self.cfg['cls'])

    def _register(self, op):
        """the application registers handlers while the server runs: `fn` = [[ns, ev], ...] through on() (a NEW
        function each time, also for a key that has one already), `cls` = [[ns, [methods]], ...] through
        register_namespace() (replaces the namespace's object)"""
        self.runtime_regs = True

        def go():
            for ns, ev in op.get('fn', []):
                key = ('fn', ns, ev)
                self.gens[key] = self.gens.get(key, 0) + 1
                self.sio.on(ev, self._mk(key, self._kind(ev), self.gens[key]), namespace=ns)
            for ns, _ms in op.get('cls', []):
                self.gens[('cls', ns)] = self.gens.get(('cls', ns), 0) + 1
            self._install_cls(op.get('cls', []))
        return self.w.run(go)

    def _install_cls(self, clss):
        base = socketio.AsyncNamespace if self.w.is_async else socketio.Namespace
        for ns, methods in clss:
            attrs = {}
            for m in methods:
                ev = m[3:]
                fn = self._mk(('cls', ns, m), self._kind(ev), self.gens.get(('cls', ns), 0))

                def bind(fn):
                    if self.coro:
                        async def meth(self_ns, *args):
                            return await fn(*args)
                    else:
                        def meth(self_ns, *args):
                            return fn(*args)
                    return meth
                attrs[m] = bind(fn)
            klass = type('VerifNS', (base,), attrs)
            self.sio.register_namespace(klass(ns))

    # ---- translate names
    def real(self, name):
        return self.names.real(name)

    def _canon(self, v):
        """rename sids inside observed values"""
        if isinstance(v, str):
            return self.names.fwd.get(v, v)
        if isinstance(v, (list, tuple)):
            return [self._canon(x) for x in v]
        if isinstance(v, dict):
            return {k: self._canon(x) for k, x in v.items()}
        return v

    # ---- ops
    def do(self, op):
        w = self.w
        self.records = []
        kind = op['op']
        res = ('ok', None)
        contained = []
        if kind == 'open':
            res = w.open(op['t'])
        elif kind == 'frame':
            res, contained = w.recv(op['t'], op['text'])
        elif kind == 'frameval':
            res, contained = w.recv(op['t'], op['v'])
        elif kind == 'lost':
            res, contained = w.lose(op['t'], op.get('reason') or 'transport close')
        elif kind == 'emit':
            res = w.api('emit', op['ev'], self.hold(op['data'], 'emitted'), **self._emit_kw(op))
        elif kind == 'register':
            res = self._register(op)
        elif kind == 'call':
            res = self._call(op)
        elif kind == 'disconnect':
            res = w.api('disconnect', self.real(op['sid']), namespace=op['ns'])
        elif kind == 'enter':
            res = w.api('enter_room', self.real(op['sid']), self.real(op['room']), namespace=op['ns'])
        elif kind == 'leave':
            res = w.api('leave_room', self.real(op['sid']), self.real(op['room']), namespace=op['ns'])
        elif kind == 'close':
            res = w.api('close_room', self.real(op['room']), namespace=op['ns'])
        elif kind == 'rooms':
            res = w.api('rooms', self.real(op['sid']), namespace=op['ns'])
        elif kind == 'get_session':
            res = w.api('get_session', self.real(op['sid']), namespace=op['ns'])
            if res[0] == 'ok':
                res = ('ok', copy.deepcopy(res[1]))
        elif kind == 'save_session':
            res = w.api('save_session', self.real(op['sid']), copy.deepcopy(op['v']), namespace=op['ns'])
        elif kind == 'session_block':
            res = self._session_block(op)
        elif kind == 'session_nested':
            res = self._session_nested(op)
        elif kind == 'session_block_save':
            res = self._session_block_save(op)
        elif kind == 'burst':
            res, contained = self._burst(op)
        elif kind == 'settle':
            errs = w.settle()
            contained = [('bg', e) for e in errs]
        else:
            raise ValueError(kind)
        return self._observe(op, res, contained)

    def _emit_kw(self, op):
        """keyword arguments of emit() for an 'emit' op (the same for both families, top level or nested in a call)"""
        kw = {'namespace': op['ns']}
        if op.get('to') is not None:
            to = op['to']
            kw['to'] = [self.real(r) for r in to['many']] if 'many' in to else self.real(to['one'])
        skip = [self.real(s) for s in op.get('skip', [])]
        if op.get('skip_scalar'):
            kw['skip_sid'] = skip[0]
        elif skip or op.get('skip_list'):
            kw['skip_sid'] = skip
        if op.get('cb') is not None:
            kw['callback'] = self._mk_callback(op['cb'], op.get('cb_style'))
        return kw

    def _mk_callback(self, tok, style=None):
        """The application's acknowledgement callback for token `tok`.

        What the library is handed is a harness wrapper that records the CALL ATTEMPT ('callback', tok, args) — the
        model's `callback tok args` — and then delegates to the application function proper, which has the scripted
        signature (`style['arity']`: 0, 1, 2, 3 positional parameters, '*' = *args, 'opt' = three optional ones),
        records that its body was ENTERED and then ends the scripted way (`style['raises']`: an exception class name,
        'TypeError' being a genuine one out of the body's own arithmetic).  A call with an argument count the
        signature does not take raises TypeError before the body is entered, as for any Python function."""
        if style is None:
            style = {'arity': '*', 'raises': 'HandlerError' if tok % 3 == 2 else None}
        arity, raises = style.get('arity', '*'), style.get('raises')

        def body(args):
            self.records.append(('callback_entered', tok, list(args)))

        def end():
            if raises:
                self.records.append(('callback_raised', tok))
                if raises == 'TypeError':
                    return 1 + 'acknowledged'         # the application's own bug: TypeError out of the body
                raise {'HandlerError': HandlerError, 'ValueError': ValueError, 'KeyError': KeyError,
                       'AttributeError': AttributeError, 'LookupError': LookupError}[raises]('scripted callback failure')

        if self.coro:
            async def fin(args):
                body(args)
                await asyncio.sleep(0)        # a suspension point inside the application callback
                end()
        else:
            def fin(args):
                body(args)
                end()
        if arity == 0:
            def inner():
                return fin(())
        elif arity == 1:
            def inner(a):
                return fin((a,))
        elif arity == 2:
            def inner(a, b):
                return fin((a, b))
        elif arity == 3:
            def inner(a, b, c):
                return fin((a, b, c))
        elif arity == 'opt':
            _no = object()

            def inner(a=_no, b=_no, c=_no):
                return fin(tuple(x for x in (a, b, c) if x is not _no))
        else:
            def inner(*args):
                return fin(args)

        def cb(*args):
            self.records.append(('callback', tok, list(args)))
            try:
                return inner(*args)           # a coroutine when the application's callbacks are coroutine functions
            except TypeError:
                if not any(r[0] == 'callback_raised' and r[1] == tok for r in self.records):
                    self.records.append(('callback_raised', tok))      # the signature rejected the arguments
                raise
        return cb

    def _burst(self, op):
        """several frames at once: concurrently (one task each) on the asyncio server, one after the
        other on the threaded one"""
        from engineio import packet as eio_packet
        before = len(self.w.eio_log.errors)
        if self.w.is_async:
            async def go():
                await asyncio.gather(*[
                    self.w.socks[f['t']].receive(eio_packet.Packet(
                        eio_packet.MESSAGE, f['text'] if f['op'] == 'frame' else f['v'])) for f in op['frames']])
            res = self.w.run(go)
        else:
            res = ('ok', None)
            for f in op['frames']:
                self.w.recv(f['t'], f['text'] if f['op'] == 'frame' else f['v'])
        return res, self.w.eio_log.errors[before:]

    def _session_nested(self, op):
        """two session() blocks for the same session, one inside the other: the inner one sets k2, then the outer
        one sets k1; both persist (the blocks share the stored dict)"""
        sid = self.real(op['sid'])
        if _nested_other(op):
            return self._session_nested_other(op)
        if self.w.is_async:
            async def blk():
                async with self.sio.session(sid, namespace=op['ns']) as outer:
                    async with self.sio.session(sid, namespace=op['ns']) as inner:
                        inner[op['k2']] = copy.deepcopy(op['v2'])
                    outer[op['k']] = copy.deepcopy(op['v'])
                return copy.deepcopy(await self.sio.get_session(sid, namespace=op['ns']))
            return self.w.run(blk)

        def blk():
            with self.sio.session(sid, namespace=op['ns']) as outer:
                with self.sio.session(sid, namespace=op['ns']) as inner:
                    inner[op['k2']] = copy.deepcopy(op['v2'])
                outer[op['k']] = copy.deepcopy(op['v'])
            return copy.deepcopy(self.sio.get_session(sid, namespace=op['ns']))
        return self.w.run(blk)

    def _session_nested_other(self, op):
        """two session() blocks, one inside the other, for two DIFFERENT sessions (op['inner'] names the inner one:
        another namespace of the same client, another client's, or a pair naming no live session -- then the inner
        entry raises inside the outer block): the inner block sets k2 and exits, then the outer one sets k and exits;
        the result is what get_session() returns for both afterwards"""
        sid, ns = self.real(op['sid']), op['ns']
        isid, ins = self.real(op['inner']['sid']), op['inner']['ns']
        if self.w.is_async:
            async def blk():
                async with self.sio.session(sid, namespace=ns) as outer:
                    async with self.sio.session(isid, namespace=ins) as inner:
                        inner[op['k2']] = copy.deepcopy(op['v2'])
                    outer[op['k']] = copy.deepcopy(op['v'])
                return {'outer': copy.deepcopy(await self.sio.get_session(sid, namespace=ns)),
                        'inner': copy.deepcopy(await self.sio.get_session(isid, namespace=ins))}
            return self.w.run(blk)

        def blk():
            with self.sio.session(sid, namespace=ns) as outer:
                with self.sio.session(isid, namespace=ins) as inner:
                    inner[op['k2']] = copy.deepcopy(op['v2'])
                outer[op['k']] = copy.deepcopy(op['v'])
            return {'outer': copy.deepcopy(self.sio.get_session(sid, namespace=ns)),
                    'inner': copy.deepcopy(self.sio.get_session(isid, namespace=ins))}
        return self.w.run(blk)

    def _session_block_save(self, op):
        """a session() block during which save_session() is called for op['save'] (the same session, another session
        of the same client, another client's, or a pair naming no live session -- then the call raises inside the
        block); the block modifies the dict it got at entry before (k0) and after (k) that call and exits; the result
        is what get_session() returns after the exit"""
        sid = self.real(op['sid'])
        tgt = op['save']
        tsid = self.real(tgt['sid'])
        if self.w.is_async:
            async def blk():
                async with self.sio.session(sid, namespace=op['ns']) as s:
                    if 'k0' in op:
                        s[op['k0']] = copy.deepcopy(op['v0'])
                    await self.sio.save_session(tsid, copy.deepcopy(tgt['v']), namespace=tgt['ns'])
                    s[op['k']] = copy.deepcopy(op['v'])
                return copy.deepcopy(await self.sio.get_session(sid, namespace=op['ns']))
            return self.w.run(blk)

        def blk():
            with self.sio.session(sid, namespace=op['ns']) as s:
                if 'k0' in op:
                    s[op['k0']] = copy.deepcopy(op['v0'])
                self.sio.save_session(tsid, copy.deepcopy(tgt['v']), namespace=tgt['ns'])
                s[op['k']] = copy.deepcopy(op['v'])
            return copy.deepcopy(self.sio.get_session(sid, namespace=op['ns']))
        return self.w.run(blk)

    def _session_block(self, op):
        sid = self.real(op['sid'])
        boom = op.get('raise_inside')
        if self.w.is_async:
            async def blk():
                async with self.sio.session(sid, namespace=op['ns']) as s:
                    s[op['k']] = copy.deepcopy(op['v'])
                    if boom:
                        raise HandlerError('application code raises inside the session block')
                    return copy.deepcopy(s)
            return self.w.run(blk)

        def blk():
            with self.sio.session(sid, namespace=op['ns']) as s:
                s[op['k']] = copy.deepcopy(op['v'])
                if boom:
                    raise HandlerError('application code raises inside the session block')
                return copy.deepcopy(s)
        return self.w.run(blk)

    def _call(self, op):
        """call(): the wait primitive is scripted — while the caller 'waits', the nested ops run (frames, transport
        loss, emits with callbacks and further call()s, on both families); it reports a timeout unless the call's own
        acknowledgement was processed meanwhile."""
        nested_obs, factory = self._scripted_event(op)
        orig = self.w.eio.create_event
        self.w.eio.create_event = factory
        try:
            res = self.w.api('call', op['ev'], self.hold(op['data'], 'emitted'), sid=self.real(op['sid']),
                             namespace=op['ns'], timeout=5)
        finally:
            self.w.eio.create_event = orig
        self._nested = nested_obs
        return res

    async def _call_async(self, op):
        """a call() issued while another call() of the asyncio server waits"""
        nested_obs, factory = self._scripted_event(op)
        orig = self.w.eio.create_event
        self.w.eio.create_event = factory
        try:
            try:
                res = ('ok', await self.sio.call(op['ev'], self.hold(op['data'], 'emitted'), sid=self.real(op['sid']),
                                                 namespace=op['ns'], timeout=5))
            except Exception as ex:   # noqa
                res = ('exc', type(ex).__name__)
        finally:
            self.w.eio.create_event = orig
        self._nested = nested_obs
        return res

    def _scripted_event(self, op):
        runner = self
        nested_obs = []

        def own_emit():
            # what call() itself put on the wire before it started to wait: observation 0 of the nested list
            saved = runner.records
            runner.records = []
            nested_obs.append(runner._observe({'op': 'call_emit'}, ('ok', None), []))
            runner.records = saved

        class ScriptedEvent:
            def __init__(self):
                self.flag = False

            def set(self):
                self.flag = True

            def is_set(self):
                return self.flag

            def clear(self):
                self.flag = False

            def wait(self, timeout=None):
                own_emit()
                if runner.w.is_async:
                    async def w():
                        for o in op['during']:
                            nested_obs.append(await runner._do_async(o))
                        if not self.flag:
                            raise asyncio.TimeoutError()
                        return True
                    return w()
                for o in op['during']:
                    saved = runner.records
                    nested_obs.append(runner.do(o))
                    runner.records = saved
                return self.flag

        return nested_obs, (lambda *a, **k: ScriptedEvent())

    async def _do_async(self, o):
        # nested ops inside an asyncio call(): frames / loss / emit (with callback) / call
        saved = self.records
        self.records = []
        from engineio import packet as eio_packet
        before = len(self.w.eio_log.errors)
        res = ('ok', None)
        if o['op'] == 'frame':
            await self.w.socks[o['t']].receive(eio_packet.Packet(eio_packet.MESSAGE, o['text']))
        elif o['op'] == 'frameval':
            await self.w.socks[o['t']].receive(eio_packet.Packet(eio_packet.MESSAGE, o['v']))
        elif o['op'] == 'lost':
            await self.w.socks[o['t']].close(wait=False, abort=True, reason=o.get('reason') or 'transport close')
        elif o['op'] == 'emit':
            try:
                await self.sio.emit(o['ev'], self.hold(o['data'], 'emitted'), **self._emit_kw(o))
            except Exception as ex:   # noqa
                res = ('exc', type(ex).__name__)
        elif o['op'] == 'call':
            res = await self._call_async(o)
        else:
            raise ValueError('nested op %r' % (o,))
        obs = self._observe(o, res, self.w.eio_log.errors[before:])
        self.records = saved
        return obs

    def _observe(self, op, res, contained):
        sends = {}
        for tid, frames in self.w.sent_all().items():
            if not frames:
                continue
            sends[tid] = [f if isinstance(f, str) else (bytes(f) if isinstance(f, (bytes, bytearray)) else repr(f))
                          for f in frames]
            if self.msgpack:
                import msgpack
                conv = []
                for f in sends[tid]:
                    try:
                        conv.append({'mp': msgpack.loads(f)} if isinstance(f, bytes) else f)
                    except Exception:   # noqa
                        conv.append(f)
                sends[tid] = conv
        # name new sids by first appearance: handler arguments first, then frames
        def walk(v):
            if isinstance(v, str):
                if v in self.generated:
                    self.names.name(v)
            elif isinstance(v, (list, tuple)):
                for x in v:
                    walk(x)
            elif isinstance(v, dict):
                for x in v.values():
                    walk(x)
        for r in self.records:
            if r[0] in ('invoke', 'callback'):
                walk(r[2])
        for tid, frames in sends.items():
            for f in frames:
                if isinstance(f, str):
                    for g in self.generated:
                        if g not in self.names.fwd and g in f:
                            self.names.name(g)
                elif isinstance(f, dict):
                    walk(f)
        for tid in sends:
            sends[tid] = [self.names.rename_text(f) if isinstance(f, str) else
                          (self._canon(f) if isinstance(f, dict) else f) for f in sends[tid]]
        obs = {'sends': sends, 'invokes': [], 'callbacks': [], 'result': None, 'exc': None,
               'raised': bool(contained), 'handler_raised': 0, 'deferred': len(self.w.background)}
        for r in self.records:
            if r[0] == 'invoke':
                obs['invokes'].append((r[1], self._canon(r[2])))
            elif r[0] == 'callback':
                obs['callbacks'].append((r[1], self._canon(r[2])))
            elif r[0] == 'handler_gen':
                obs.setdefault('handler_gens', []).append((r[1], r[2]))
            elif r[0] == 'callback_entered':
                obs.setdefault('cb_entered', []).append((r[1], self._canon(r[2])))
            elif r[0] == 'handler_raised':
                obs['handler_raised'] += 1
            elif r[0] == 'callback_raised':
                obs['callback_raised'] = obs.get('callback_raised', 0) + 1
            elif r[0] == 'handler_cancelled':
                obs['handler_cancelled'] = obs.get('handler_cancelled', 0) + 1
        mod = self.held_modified()
        if mod:
            obs['app_modified'] = mod
        if self.w.escaped:
            obs['escaped'] = ['%s from %s' % (cls, where) for where, cls in self.w.escaped]
            del self.w.escaped[:]
        if res[0] == 'exc':
            obs['exc'] = res[1]
        elif res[1] is not None and op['op'] in ('rooms', 'get_session', 'session_block', 'session_nested',
                                                 'session_block_save', 'call'):
            obs['result'] = self._canon(res[1])
        if op['op'] == 'call':
            nested = getattr(self, '_nested', [])
            self._nested = []
            outcomes = []
            for n in nested:
                for tid, fr in n['sends'].items():
                    obs['sends'].setdefault(tid, []).extend(fr)
                obs['invokes'] += n['invokes']
                obs['callbacks'] += n['callbacks']
                obs['raised'] = obs['raised'] or n['raised']
                for key in ('cb_entered', 'app_modified', 'escaped'):
                    if n.get(key):
                        obs.setdefault(key, []).extend(n[key])
                outcomes += n.get('call_outcomes', [])
            # per nested op (0 = what call() itself sent before waiting), for oracles that follow the ids on the wire
            obs['nested'] = nested
            if res[0] == 'ok':
                obs['result'] = self._canon(res[1])
                obs['has_result'] = True
            # how every call() of this step ended, innermost first (the order in which they return)
            r = obs['result']
            outcomes.append('timeout' if res[1] == 'TimeoutError' and res[0] == 'exc' else
                            ['raised', res[1]] if res[0] == 'exc' else ['result', list(r) if isinstance(r, tuple) else r])
            obs['call_outcomes'] = outcomes
        return obs

    # ---- introspection for generators / oracles
    def connected(self):
        """{(tid, ns): sid name} as the manager sees it"""
        out = {}
        m = self.sio.manager
        for ns in list(m.get_namespaces()):
            for sid, eio in list(m.get_participants(ns, None)):
                out[(eio, ns)] = self.names.name(sid)
        return out

    # ---- model-free introspection: walks the object graph, names no attribute of the library
    def _walk(self):
        """yields (path, value) for every key / element / attribute value reachable from the server through
        containers and through objects defined by socketio / engineio / bidict"""
        seen = set()
        stack = [('server', self.sio)]
        while stack:
            path, o = stack.pop()
            if isinstance(o, (str, bytes, int, float, bool, type(None))):
                yield path, o
                continue
            if id(o) in seen:
                continue
            seen.add(id(o))
            if isinstance(o, dict):
                for k, v in list(o.items()):
                    if type(v).__name__ in ('Socket', 'AsyncSocket') and getattr(v, 'closed', False):
                        continue            # engine.io drops closed sockets lazily; not the server's state
                    yield path + '{key}', k
                    stack.append((path + '[%r]' % (k,), v))
                    if not isinstance(k, (str, int, float, bool, type(None))):
                        stack.append((path + '{key}', k))
            elif isinstance(o, (list, tuple, set, frozenset)):
                for i, v in enumerate(list(o)):
                    stack.append((path + '[%d]' % i, v))
            elif isinstance(o, (str, bytes, int, float, bool, type(None))):
                yield path, o
            else:
                mod = (getattr(type(o), '__module__', '') or '').split('.')[0]
                if mod in ('socketio', 'engineio', 'bidict'):
                    if type(o).__name__ in ('Socket', 'AsyncSocket') and getattr(o, 'closed', False):
                        continue            # engine.io drops closed sockets lazily; not the server's state
                    if mod == 'bidict':
                        try:
                            stack.append((path, dict(o)))
                        except Exception:   # noqa
                            pass
                    elif hasattr(o, '__dict__'):
                        for k, v in list(vars(o).items()):
                            if k in ('logger',):
                                continue
                            stack.append((path + '.' + k, v))

    def mentions(self, t, sids=()):
        """where the server still refers to transport `t` or to any of the session ids `sids`"""
        want = set(sids) | {t}
        out = set()
        for path, v in self._walk():
            if isinstance(v, str) and v in want:
                out.add(path.split('[')[0].split('{')[0])
        return sorted(out)

    def sids_of(self, t):
        """session ids the server associates with transport t (public queries only)"""
        out = set()
        for (eio, ns), name in self.connected().items():
            if eio == t:
                out.add(self.names.real(name))
        return out

    def graph_slots(self):
        """number of container entries (dict items, list/set/tuple elements) reachable from the server; scalar
        attributes of objects are not counted (an attribute set on first use is not per-client state)"""
        n = 0
        for path, _v in self._walk():
            if path.endswith(']') or path.endswith('{key}'):
                n += 1
        return n

    def residue(self):
        """growth of the object graph relative to the freshly built server (0 when indistinguishable)"""
        return {'graph_growth': self.graph_slots() - self.fresh_slots}

    def close(self):
        if self.codec:
            self.codec.close()
        self.w.close()


# ------------------------------------------------------------------ model side

_codec = None


def codec():
    global _codec
    if _codec is None:
        _codec = C.Driver('codec')
    return _codec


_frame_cache = {}


def frame_tables(text):
    """cls / loads tables the model needs to decode `text` the way the real json/isdigit do."""
    if text in _frame_cache:
        return _frame_cache[text]
    cls = C.digit_table(text)
    loads = []
    try:
        h = codec().ask({'op': 'dechdr', 'text': C.s2w(text), 'cls': cls})
    except C.Unrepresentable:
        _frame_cache[text] = None
        return None
    if 'exc' not in h and h['rest']:
        rest = C.w2s(h['rest'])
        try:
            v = sp.Packet.json.loads(rest)
            try:
                loads.append([h['rest'], C.j2w(v)])
            except C.Unrepresentable:
                _frame_cache[text] = None
                return None
            except TypeError:
                loads.append([h['rest'], {'exc': 'Exception'}])
        except Exception:   # noqa
            loads.append([h['rest'], {'exc': 'JSONDecodeError'}])
    _frame_cache[text] = (cls, loads)
    return _frame_cache[text]


def op_wire(op):
    k = op['op']
    s = C.s2w
    if k == 'open':
        return {'op': 'open', 't': s(op['t'])}
    if k == 'frame':
        cls, loads = frame_tables(op['text'])
        return {'op': 'frame', 't': s(op['t']), 'text': s(op['text']), 'cls': cls, 'loads': loads}
    if k == 'frameval':
        return {'op': 'frameval', 't': s(op['t']), 'v': C.j2w(op['v'])}
    if k == 'lost':
        return {'op': 'lost', 't': s(op['t']), 'reason': s(op.get('reason') or 'transport close')}
    if k == 'emit':
        to = op.get('to')
        if to is not None:
            to = {'many': [s(r) for r in to['many']]} if 'many' in to else {'one': s(to['one'])}
        return {'op': 'emit', 'ev': s(op['ev']), 'data': C.data2w(op['data']), 'ns': s(op['ns']), 'to': to,
                'skip': [s(x) for x in op.get('skip', [])], 'cb': op.get('cb')}
    if k == 'call':
        return {'op': 'call', 'ev': s(op['ev']), 'data': C.data2w(op['data']), 'ns': s(op['ns']),
                'sid': s(op['sid']), 'during': [op_wire(o) for o in op['during']]}
    if k == 'session_nested':
        raise ValueError('session_nested is expanded by model_run')
    if k == 'session_block_save':
        raise ValueError('session_block_save is run by model_run as a sequence of inputs')
    if k in ('disconnect', 'rooms', 'get_session'):
        return {'op': k, 'sid': s(op['sid']), 'ns': s(op['ns'])}
    if k in ('enter', 'leave'):
        return {'op': k, 'sid': s(op['sid']), 'ns': s(op['ns']), 'room': s(op['room'])}
    if k == 'close':
        return {'op': 'close', 'ns': s(op['ns']), 'room': s(op['room'])}
    if k == 'save_session':
        return {'op': k, 'sid': s(op['sid']), 'ns': s(op['ns']), 'v': C.j2w(op['v'])}
    if k == 'session_block':
        return {'op': k, 'sid': s(op['sid']), 'ns': s(op['ns']), 'k': s(op['k']), 'v': C.j2w(op['v'])}
    if k == 'settle':
        return {'op': 'settle'}
    if k == 'register':
        raise ValueError('register is expanded by model_run (the registry from then on)')
    raise ValueError(k)


def representable(op):
    if op['op'] == 'burst':
        return all(representable(o) for o in op['frames'])
    if op['op'] == 'frame':
        try:
            return frame_tables(op['text']) is not None
        except C.Unrepresentable:
            return False
    if op['op'] == 'call':
        return all(representable(o) for o in op['during'])
    return True


def model_obs(ans):
    obs = {'sends': {}, 'invokes': [], 'callbacks': [], 'result': None, 'exc': None, 'raised': False,
           'timeout': False, 'call_outcomes': []}
    for o in ans['outs']:
        if 'send' in o:
            t = C.w2s(o['send'])
            fr = obs['sends'].setdefault(t, [])
            fr.append(C.w2s(o['text']))
            fr.extend(bytes.fromhex(h) for h in o['atts'])
        elif 'invoke' in o:
            sl = o['invoke']
            if 'fn' in sl:
                slot = ('fn', C.w2s(sl['fn'][0]), C.w2s(sl['fn'][1]))
            else:
                slot = ('cls', C.w2s(sl['cls'][0]), C.w2s(sl['cls'][1]))
            obs['invokes'].append((slot, [C.w2j(a) for a in o['args']]))
        elif 'callback' in o:
            obs['callbacks'].append((o['callback'], [C.w2j(a) for a in o['args']]))
        elif 'raised' in o:
            obs['raised'] = True
        elif 'result' in o:
            # with call()s nested in a call() the outs are the flattened list: the outermost call ends last
            obs['result'] = C.w2j(o['result'])
            obs['has_result'] = True
            obs['timeout'] = False
            obs['call_outcomes'].append(['result', obs['result']])
        elif 'timeout' in o:
            obs['timeout'] = True
            obs['result'] = None
            obs.pop('has_result', None)
            obs['call_outcomes'].append('timeout')
    return obs


def registry_after(cfg, op):
    """the configuration with the registries as they are after a 'register' op: on() adds / replaces the function
    handler of a key, register_namespace() replaces the namespace's object"""
    new = dict(cfg)
    new['fn'] = [list(f) for f in cfg['fn']]
    for f in op.get('fn', []):
        if list(f) not in new['fn']:
            new['fn'].append(list(f))
    repl = {ns for ns, _ms in op.get('cls', [])}
    new['cls'] = [c for c in cfg['cls'] if c[0] not in repl] + [[ns, list(ms)] for ns, ms in op.get('cls', [])]
    return new


def _nested_as_blocks(o):
    return [{'op': 'session_block', 'sid': o['sid'], 'ns': o['ns'], 'k': o['k2'], 'v': o['v2']},
            {'op': 'session_block', 'sid': o['sid'], 'ns': o['ns'], 'k': o['k'], 'v': o['v']}]


def _nested_other(o):
    """a `session_nested` whose inner block is for another (sid, namespace) than the outer one"""
    i = o.get('inner')
    return bool(i) and (i['sid'], i['ns']) != (o['sid'], o['ns'])


def _model_nested_other(drv, o):
    """`session_nested` with an inner block for ANOTHER session, as model inputs -- each block = getSession at entry,
    modify, saveSession at exit, on its own (sid, namespace): getSession(outer); getSession(inner) [raises when the pair
    names no session: the exception leaves the outer block, which saves its entry dict unmodified]; saveSession(inner,
    entry dict + k2); saveSession(outer, entry dict + k); the result is getSession of both."""
    def ask(x):
        return model_obs(drv.ask(op_wire(x)))
    me = {'sid': o['sid'], 'ns': o['ns']}
    other = {'sid': o['inner']['sid'], 'ns': o['inner']['ns']}
    out = model_obs({'outs': []})
    a = ask(dict(me, op='get_session'))
    if a['raised']:
        out['raised'] = True
        return out
    cur = a['result']
    b = ask(dict(other, op='get_session'))
    if b['raised']:
        out['raised'] = True
    else:
        cur2 = b['result']
        if isinstance(cur2, dict):
            cur2[o['k2']] = o['v2']
        ask(dict(other, op='save_session', v=cur2))
        if isinstance(cur, dict):
            cur[o['k']] = o['v']
    ask(dict(me, op='save_session', v=cur))
    if not out['raised']:
        out['result'] = {'outer': ask(dict(me, op='get_session'))['result'],
                         'inner': ask(dict(other, op='get_session'))['result']}
    return out


def _model_block_save(drv, o):
    """`session_block_save` as model inputs: getSession (the dict E the block works on); saveSession for the call made
    while the block is open; saveSession of E with the block's modifications (what the exit of the block does, also
    when the call inside raised: then without the modification that would have followed it); getSession (the result)."""
    def ask(x):
        return model_obs(drv.ask(op_wire(x)))
    me = {'sid': o['sid'], 'ns': o['ns']}
    out = model_obs({'outs': []})
    a = ask(dict(me, op='get_session'))
    if a['raised']:
        out['raised'] = True          # no such session: session() raises at entry
        return out
    cur = a['result']
    if isinstance(cur, dict) and 'k0' in o:
        cur[o['k0']] = o['v0']
    b = ask(dict(o['save'], op='save_session'))
    if b['raised']:
        out['raised'] = True
    elif isinstance(cur, dict):
        cur[o['k']] = o['v']
    ask(dict(me, op='save_session', v=cur))
    if not out['raised']:
        out['result'] = ask(dict(me, op='get_session'))['result']
    return out


def model_run(cfg, ops):
    flat = []
    now = cfg
    for o in ops:
        if o['op'] == 'session_nested' and _nested_other(o):
            flat.append({'_dialogue': o})
        elif o['op'] == 'session_nested':
            flat.extend(_nested_as_blocks(o))
        elif o['op'] == 'register':
            # the model's `step` takes the registry as a parameter: from here on it is the extended one
            now = registry_after(now, o)
            w = cfg_wire(now)['cfg']
            flat.append({'_wire': {'op': 'reg', 'fn': w['fn'], 'cls': w['cls']}})
        elif o['op'] == 'session_block_save':
            flat.append({'_dialogue': o})
        else:
            flat.extend(o['frames'] if o['op'] == 'burst' else [o])
    if any('_dialogue' in o for o in flat):
        # an op that is a SEQUENCE of model inputs of which a later one depends on an earlier answer: one model
        # process, asked line by line
        drv = C.Driver('server')
        try:
            drv.ask(cfg_wire(cfg))
            obs = []
            for o in flat:
                if '_dialogue' in o:
                    d = o['_dialogue']
                    obs.append((_model_nested_other if d['op'] == 'session_nested' else _model_block_save)(drv, d))
                else:
                    obs.append(model_obs(drv.ask(o['_wire'] if '_wire' in o else op_wire(o))))
            answers = [drv.ask({'op': 'snapshot'})]
        finally:
            drv.close()
    else:
        lines = [cfg_wire(cfg)] + [o['_wire'] if '_wire' in o else op_wire(o) for o in flat]
        answers = C.batch('server', lines + [{'op': 'snapshot'}])
        obs = [model_obs(a) for a in answers[1:-1]]
    out = []
    i = 0
    for o in ops:
        if o['op'] == 'session_nested' and not _nested_other(o):
            out.append(obs[i + 1])          # the state after both blocks; result of the second (outer) write
            i += 2
            continue
        if o['op'] != 'burst':
            out.append(obs[i])
            i += 1
            continue
        m = {'sends': {}, 'invokes': [], 'callbacks': [], 'result': None, 'exc': None, 'raised': False, 'timeout': False}
        for _ in o['frames']:
            for t, fr in obs[i]['sends'].items():
                m['sends'].setdefault(t, []).extend(fr)
            m['invokes'] += obs[i]['invokes']
            m['callbacks'] += obs[i]['callbacks']
            m['raised'] = m['raised'] or obs[i]['raised']
            i += 1
        out.append(m)
    return out, answers[-1]


# ------------------------------------------------------------------ comparison

def _sorted_invokes(inv):
    return sorted(inv, key=lambda x: json.dumps([x[0], C.j2w(x[1])], sort_keys=True, default=str))


def compare(op, impl, model):
    """-> list of textual differences (empty = agree)"""
    diffs = []
    if impl.get('app_modified'):
        diffs.append('the library modified an object that belongs to the application (a value a handler returned or '
                     'that was passed to emit()/call()): %s' % '; '.join(impl['app_modified']))
    if impl.get('escaped'):
        diffs.append('an exception that is not an Exception escaped from the server (through engine.io\'s callback or '
                     'an API call): %s' % ', '.join(impl['escaped']))
    if impl['sends'] != model['sends']:
        diffs.append('sends differ: impl=%r model=%r' % (impl['sends'], model['sends']))
    ii, mi = impl['invokes'], model['invokes']
    if op['op'] == 'lost' or (op['op'] == 'call' and any(o['op'] == 'lost' for o in op['during'])):
        ii, mi = _sorted_invokes(ii), _sorted_invokes(mi)
    if len(ii) != len(mi) or any(a[0] != b[0] or not C.same(list(a[1]), list(b[1])) for a, b in zip(ii, mi)):
        diffs.append('handler invocations differ: impl=%r model=%r' % (ii, mi))
    if len(impl['callbacks']) != len(model['callbacks']) or any(
            a[0] != b[0] or not C.same(list(a[1]), list(b[1])) for a, b in zip(impl['callbacks'], model['callbacks'])):
        diffs.append('callbacks differ: impl=%r model=%r' % (impl['callbacks'], model['callbacks']))
    k = op['op']
    if k == 'call':
        if impl['exc'] == 'TimeoutError':
            if not model['timeout']:
                diffs.append('call(): impl timed out, model returned %r' % (model['result'],))
        elif impl['exc']:
            if not model['raised']:
                diffs.append('call(): impl raised %s' % impl['exc'])
        else:
            r = impl['result']
            r = list(r) if isinstance(r, tuple) else r
            if model['timeout'] or not C.same(r, model['result']):
                diffs.append('call() result: impl=%r model=%r' % (impl['result'], model['result']))
        io, mo = impl.get('call_outcomes', [])[:-1], model.get('call_outcomes', [])[:-1]
        if impl['exc'] in (None, 'TimeoutError') and (len(io) != len(mo) or any(
                not C.same(a, b) for a, b in zip(io, mo))):
            diffs.append('call()s issued while this call() waited ended differently: impl=%r model=%r' % (io, mo))
    elif k in ('rooms',):
        if impl['exc'] or sorted(impl['result'] or []) != sorted(model['result'] or []):
            diffs.append('rooms(): impl=%r/%r model=%r' % (impl['result'], impl['exc'], model['result']))
    elif k == 'session_block' and op.get('raise_inside') and not model['raised']:
        # the block raised after mutating the session: the exception passes through, the session is saved
        if impl['exc'] != 'HandlerError':
            diffs.append('session() block: the application exception did not pass through: %r' % (impl['exc'],))
    elif k == 'session_nested':
        if bool(impl['exc']) != model['raised']:
            diffs.append('nested session blocks: impl exc=%r model raised=%r' % (impl['exc'], model['raised']))
        elif not impl['exc'] and not C.same(impl['result'], model['result']):
            diffs.append(('nested session() blocks for two different sessions: afterwards the sessions hold %r, each block '
                          'writing to its own session gives %r' if _nested_other(op) else
                          'nested session() blocks lost a modification: stored %r, both writes give %r')
                         % (impl['result'], model['result']))
    elif k in ('get_session', 'session_block', 'session_block_save', 'save_session', 'enter', 'leave', 'close',
               'disconnect', 'emit'):
        if bool(impl['exc']) != model['raised']:
            diffs.append('%s: impl exc=%r model raised=%r' % (k, impl['exc'], model['raised']))
        elif not impl['exc'] and k in ('get_session', 'session_block', 'session_block_save') and not C.same(
                impl['result'], model['result']):
            diffs.append('%s result: impl=%r model=%r' % (k, impl['result'], model['result']))
    elif k == 'register':
        if impl['exc']:
            diffs.append('registering handlers at run time raised %s' % impl['exc'])
    elif k in ('frame', 'frameval', 'burst'):
        # exceptions escaping the message handler are contained (and logged) by engine.io
        ir = impl['raised'] or impl['handler_raised'] > 0
        if impl.get('callback_raised'):
            ir = model['raised']        # an application callback that raises is contained like a handler; not modelled
        if ir != model['raised']:
            diffs.append('frame: impl contained-error=%r model raised=%r' % (ir, model['raised']))
    return diffs


# ------------------------------------------------------------------ case execution, shrinking, replay

PROBES = {'pre': None, 'post': None}


def execute_impl(mode, cfg, ops, coro=False, server_opts=None, active=False):
    """implementation only: -> (observations, names)"""
    r = Runner(mode, cfg, coroutine_handlers=coro, server_opts=server_opts, active=active)
    try:
        return [r.do(copy.deepcopy(o)) for o in ops], r.names
    finally:
        r.close()


def execute(mode, cfg, ops, coro=False):
    """Run a fixed op list on impl and model. -> (trace [(op, impl_obs, model_obs)], residue, snapshot, skipped)"""
    r = Runner(mode, cfg, coroutine_handlers=coro)
    try:
        ops = [o for o in ops if representable(o)]
        impl = []
        for o in ops:
            pre = PROBES['pre'](r, o) if PROBES['pre'] else None
            obs = r.do(copy.deepcopy(o))
            if PROBES['post']:
                obs['probe'] = PROBES['post'](r, o, pre)
            impl.append(obs)
        residue = r.residue()
    finally:
        r.close()
    model, snap = model_run(cfg, ops)
    return list(zip(ops, impl, model)), residue, snap


def first_divergence(trace):
    for i, (op, im, mo) in enumerate(trace):
        d = compare(op, im, mo)
        if d:
            return i, d
    return None


def shrink_ops(ops, still_fails, budget=120):
    """greedy one-at-a-time removal (from the end), bounded"""
    cur = list(ops)
    i = len(cur) - 1
    tries = 0
    while i >= 0 and tries < budget:
        cand = cur[:i] + cur[i + 1:]
        tries += 1
        try:
            bad = still_fails(cand)
        except Exception:   # noqa
            bad = False
        if bad:
            cur = cand
        i -= 1
    return cur


def run_cases(ctx, profile, ncases, nops, oracle=None, nontrivial=None, modes=('threading', 'asyncio'),
              final_lose_all=False, gen_hook=None, probe_pre=None, probe_post=None):
    """Generic K4 correspondence + oracle loop. `oracle(cfg, trace, residue)` returns a list of
    (signature_or_None, text) failures judged on the IMPLEMENTATION's observations only;
    `nontrivial(cfg, trace)` returns a hashable key or None."""
    from . import server_gen as SG
    rng = ctx.rng
    PROBES['pre'], PROBES['post'] = probe_pre, probe_post
    nontriv = set()
    evals = 0
    samples = []
    for ci in range(ncases):
        cfg = SG.make_cfg(rng, profile)
        mode = modes[ci % len(modes)]
        coro = rng.random() < 0.5
        sc = SG.Scenario(rng, profile)
        if gen_hook:
            gen_hook(sc, cfg)
        runner = Runner(mode, cfg, coroutine_handlers=coro)
        ops, impl = [], []
        try:
            n = rng.randint(max(3, nops // 3), nops)
            k = 0
            while k < n or sc.pending_frames:
                op = sc.next()
                k += 1
                if not representable(op):
                    ctx.count('skipped_unrepresentable')
                    continue
                pre = probe_pre(runner, op) if probe_pre else None
                obs = runner.do(copy.deepcopy(op))
                if probe_post:
                    obs['probe'] = probe_post(runner, op, pre)
                sc.learn(op, obs)
                now = runner.connected()          # generation guidance only: API calls address live sessions
                sc.gone = sorted(set(sc.gone) | (set(sc.conn.values()) - set(now.values())))[-6:]
                sc.conn = now
                ops.append(op)
                impl.append(obs)
                ctx.count('op.' + op['op'])
            if cfg['asyncHandlers']:
                op = {'op': 'settle'}
                ops.append(op)
                impl.append(runner.do(op))
            # state sweep through the public API: rooms() of every session id seen, on every namespace used
            sweep = [(sid, ns) for sid in sorted(runner.names.rev) for ns in ('/', '/a', '/b')]
            for sid, ns in sweep[:15]:
                op = {'op': 'rooms', 'sid': sid, 'ns': ns}
                ops.append(op)
                impl.append(runner.do(op))
            if final_lose_all:
                for t in list(sc.open):
                    op = {'op': 'lost', 't': t, 'reason': 'transport close'}
                    pre = probe_pre(runner, op) if probe_pre else None
                    obs = runner.do(op)
                    if probe_post:
                        obs['probe'] = probe_post(runner, op, pre)
                    sc.learn(op, obs)
                    ops.append(op)
                    impl.append(obs)
            residue = runner.residue()
        finally:
            runner.close()
        for key, v in runner.stats.items():
            ctx.count(key, v)
        model, snap = model_run(cfg, ops)
        trace = list(zip(ops, impl, model))
        evals += len(ops)
        ctx.count('mode.' + mode)
        div = first_divergence(trace)
        info = {'mode': mode, 'coro': coro}
        if oracle and oracle.__code__.co_argcount >= 4:
            _orc = oracle

            def oracle_(c, t, r, _orc=_orc, info=info):
                return _orc(c, t, r, info)
        else:
            oracle_ = oracle
        fails = oracle_(cfg, trace, residue) if oracle_ else []
        if fails and not div and all(sig and sig in ctx.known_hits for sig, _ in fails):
            ctx.count('known_finding_cases')
            fails = []          # already reported once in this run (shrunk); nothing new to learn
        if div or fails:
            case = {'mode': mode, 'coro': coro, 'cfg': cfg}

            def still(cand, want_oracle=bool(fails)):
                tr, res, _ = execute(mode, cfg, cand, coro)
                if want_oracle:
                    return bool(oracle_(cfg, tr, res))
                return first_divergence(tr) is not None
            small = shrink_ops(ops, still)
            tr, res, _ = execute(mode, cfg, small, coro)
            case['ops'] = small
            if fails:
                f2 = oracle_(cfg, tr, res) or fails
                for sig, text in f2[:3]:
                    if sig:
                        ctx.known(sig, text)
                    else:
                        ctx.violation('oracle', text, dict(case, failure=text))
            if div:
                d2 = first_divergence(tr)
                ctx.violation('correspondence',
                              'implementation and model disagree at op %s: %s' % (
                                  d2[0] if d2 else div[0], (d2 or div)[1][0][:400]),
                              dict(case, divergence=(d2 or div)[1]), no_input=not fails)
        if nontrivial:
            key = nontrivial(cfg, trace)
            if key is not None:
                nontriv.add(key)
        if len(samples) < 2:
            samples.append({'mode': mode, 'cfg': {k: v for k, v in cfg.items() if k in ('alwaysConnect', 'asyncHandlers', 'served', 'fn', 'cls')},
                            'ops': [_brief(o) for o in ops[:25]]})
    ctx.coverage['evaluations'] = ctx.coverage.get('evaluations', 0) + evals
    ctx.coverage['distinct_nontrivial'] = ctx.coverage.get('distinct_nontrivial', 0) + len(nontriv)
    ctx.coverage['traces_validated_against_impl'] = ctx.coverage.get('traces_validated_against_impl', 0) + ncases
    ctx.coverage.setdefault('samples', []).extend(samples)


def _brief(o):
    o = dict(o)
    for k in ('data', 'v'):
        if k in o:
            o[k] = repr(o[k])[:80]
    if 'during' in o:
        o['during'] = [_brief(x) for x in o['during']]
    return o


def replay_case(ctx, r, oracle=None):
    """`./check Cxx --replay file`: re-executes the stored case on impl and model, prints both and the oracle's
    verdict (exit status 1 when the property fails on the implementation outside the known findings)."""
    case = C.unjsonable(r.get('replay', r))
    trace, residue, snap = execute(case['mode'], case['cfg'], case['ops'], case.get('coro', False))
    for i, (op, im, mo) in enumerate(trace):
        print('--- op %d: %s' % (i, _brief(op)))
        print('   impl : %r' % ({k: v for k, v in im.items() if v},))
        print('   model: %r' % ({k: v for k, v in mo.items() if v},))
        d = compare(op, im, mo)
        if d:
            print('   DIFF : %s' % d)
    print('residue impl=%r model=%r' % (residue, snap))
    if oracle is None:
        return 0
    fails = oracle(case['cfg'], trace, residue)
    known, _ = C.known_findings()
    listed = dict(known.get(ctx.prop, []))
    rc = 0
    for sig, text in fails:
        if sig is not None and sig in listed:
            print('oracle: KNOWN-FINDING %s: %s' % (sig, text))
        else:
            print('oracle: FAILS: %s' % (text,))
            rc = 1
    if not fails:
        print('oracle: holds')
    return rc


# ------------------------------------------------------------------ helpers for oracles

def _nested_bytes(v, depth=0):
    """does `v` contain a byte string INSIDE a list/dict that the server does not rebuild itself (the top-level
    tuple / the value itself are wrapped in a new list by the server)"""
    if isinstance(v, (bytes, bytearray)):
        return depth >= 1
    if isinstance(v, tuple) and depth == 0:
        return any(_nested_bytes(x, 0) for x in v if not isinstance(x, (bytes, bytearray)))
    if isinstance(v, (list, tuple)):
        return any(_nested_bytes(x, depth + 1) for x in v)
    if isinstance(v, dict):
        return any(_nested_bytes(x, depth + 1) for x in v.values())
    return False


def sent_packets(obs):
    """[(tid, packet dict)] decoded with the independent codec"""
    from . import pycodec
    out = []
    for tid, frames in obs['sends'].items():
        try:
            for p in pycodec.decode_stream(frames):
                out.append((tid, p))
        except Exception as ex:   # noqa
            out.append((tid, {'type': 'undecodable', 'data': repr(frames), 'ns': None, 'id': None}))
    return out


class ClientFrames:
    """Reassembles what each client sent (text + attachments) into packets, op by op."""

    def __init__(self):
        self.pend = {}

    def feed(self, op):
        """-> packet dict completed by this op, 'incomplete', or None (not a well-formed client packet)"""
        from . import pycodec
        if op['op'] not in ('frame', 'frameval'):
            return None
        t = op['t']
        fr = self.pend.get(t, []) + [op['text'] if op['op'] == 'frame' else op['v']]
        try:
            pk = pycodec.decode_stream(fr)
        except Exception:   # noqa
            self.pend.pop(t, None)
            # 'undecodable' only when the header parsed and the attachments do not reconstruct the payload;
            # a header this independent (strict) codec rejects may still be one the library legitimately accepts
            try:
                if isinstance(fr[0], str) and pycodec.decode_text(fr[0])['natt'] > 0:
                    return 'undecodable'
            except Exception:   # noqa
                pass
            return None
        if pk and pk[-1]['type'] == 'incomplete':
            self.pend[t] = fr
            return 'incomplete'
        self.pend.pop(t, None)
        return pk[-1] if pk else None

    def drop(self, t):
        self.pend.pop(t, None)

    def pending_ns(self, t):
        """namespace of the incomplete packet of transport t (None: nothing pending)"""
        from . import pycodec
        try:
            return pycodec.decode_text(self.pend[t][0])['ns']
        except Exception:   # noqa
            return None


def served(cfg, ns):
    return (cfg['served'] == '*' or ns in cfg['served'] or any(f[0] == ns for f in cfg['fn'])
            or any(c[0] == ns for c in cfg['cls']))


def has_handler(cfg, ns, ev):
    """is some target responsible for reserved event `ev` on `ns` (connect/disconnect)"""
    if [ns, ev] in cfg['fn'] or ['*', ev] in cfg['fn']:
        return True
    for cns, ms in cfg['cls']:
        if cns == ns:
            return ('on_' + ev) in ms
    for cns, ms in cfg['cls']:
        if cns == '*':
            return ('on_' + ev) in ms
    return False


def error_args(args):
    if len(args) == 0:
        return {'message': 'Connection rejected by server'}
    d = {'message': str(args[0])}
    if len(args) == 2:
        d['data'] = args[1]
    elif len(args) > 2:
        d['data'] = list(args[1:])
    return d


def event_target(cfg, ns, ev):
    """documented precedence for an ordinary event: -> 'fn' / 'cls' (method exists) / 'cls-nomethod' / None"""
    fns = [tuple(f) for f in cfg['fn']]
    if (ns, ev) in fns or (ns, '*') in fns or ('*', ev) in fns or ('*', '*') in fns:
        return 'fn'
    for cns, ms in cfg['cls']:
        if cns == ns:
            return 'cls' if ('on_' + ev) in ms else 'cls-nomethod'
    for cns, ms in cfg['cls']:
        if cns == '*':
            return 'cls' if ('on_' + ev) in ms else 'cls-nomethod'
    return None


def sid_position(slot):
    """index of the session id in the arguments a handler slot receives (documented prefixes)"""
    kind, ns, ev = slot
    if kind == 'fn':
        return (1 if ns == '*' else 0) + (1 if ev == '*' else 0)
    return 1 if ns == '*' else 0
