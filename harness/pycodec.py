"""A small Socket.IO v5 codec written from the protocol description, independent of /repo.
Used by generators (client->server frames) and oracles (server->client frames)."""
import json


def _decon(v, atts):
    if isinstance(v, (bytes, bytearray)):
        atts.append(bytes(v))
        return {'_placeholder': True, 'num': len(atts) - 1}
    if isinstance(v, (list, tuple)):
        return [_decon(x, atts) for x in v]
    if isinstance(v, dict):
        return {k: _decon(x, atts) for k, x in v.items()}
    return v


def _has_bin(v):
    if isinstance(v, (bytes, bytearray)):
        return True
    if isinstance(v, (list, tuple)):
        return any(_has_bin(x) for x in v)
    if isinstance(v, dict):
        return any(_has_bin(x) for x in v.values())
    return False


def encode(ptype, ns=None, pid=None, data=None, force_binary=False):
    """-> list of frames: [text] + attachments"""
    atts = []
    if ptype in (2, 3) and (force_binary or _has_bin(data)):
        ptype += 3
    text = str(ptype)
    if ptype in (5, 6):
        data = _decon(data, atts)
        text += '%d-' % len(atts)
    if ns not in (None, '/'):
        text += ns + ','
    if pid is not None:
        text += str(pid)
    if data is not None:
        text += json.dumps(data, separators=(',', ':'))
    return [text] + atts


def _recon(v, atts):
    if isinstance(v, list):
        return [_recon(x, atts) for x in v]
    if isinstance(v, dict):
        if v.get('_placeholder') is True and 'num' in v:
            return atts[v['num']]
        return {k: _recon(x, atts) for k, x in v.items()}
    return v


def decode_text(text):
    """-> dict(type, ns, id, data, natt)"""
    i = 1
    ptype = int(text[0])
    natt = 0
    if ptype in (5, 6):
        j = text.index('-', i)
        natt = int(text[i:j])
        i = j + 1
    ns = '/'
    if text[i:i + 1] == '/':
        j = text.find(',', i)
        if j == -1:
            ns, i = text[i:], len(text)
        else:
            ns, i = text[i:j], j + 1
    j = i
    while j < len(text) and text[j] in '0123456789':
        j += 1
    pid = int(text[i:j]) if j > i else None
    data = json.loads(text[j:]) if j < len(text) else None
    return {'type': ptype, 'ns': ns, 'id': pid, 'data': data, 'natt': natt}


def decode_stream(frames):
    """frames of one transport (str / bytes) -> list of packets with attachments put back"""
    out = []
    cur = None
    for f in frames:
        if cur is not None:
            cur['_atts'].append(f)
            if len(cur['_atts']) == cur['natt']:
                cur['data'] = _recon(cur['data'], cur.pop('_atts'))
                out.append(cur)
                cur = None
            continue
        if not isinstance(f, str):
            out.append({'type': 'stray-binary', 'data': f})
            continue
        p = decode_text(f)
        if p['natt'] > 0:
            p['_atts'] = []
            cur = p
        else:
            out.append(p)
    if cur is not None:
        cur['type'] = 'incomplete'
        out.append(cur)
    return out
