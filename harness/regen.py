"""Regenerate lean/Sio/Generated/*.lean from the Python source (DESIGN §2.1 item 3, translator).

    python -m harness.regen            (or /verif/bin/regen)

Reads `${VERIF_REPO:-/repo}/src/socketio/*.py` with `ast` only (nothing is imported or executed),
writes `Reserved.lean` (C13), `Forward.lean` (C17) and `Constants.lean` (the literal constants the
models repeat; `Sio/Props/Glue{Codec,Server,Reconnect}.lean`; also reads the installed engineio package).  Output is deterministic: the same source
gives byte-identical files, and a file whose content did not change is not rewritten, so `lake`
does not rebuild.  Writing happens under the same lock as `bin/lk`, so a concurrent build never
sees a half-written file.
"""
import fcntl
import os
import sys

ROOT = os.path.dirname(os.path.dirname(os.path.abspath(__file__)))
LEAN = os.path.join(ROOT, 'lean')
GEN_DIR = os.path.join(LEAN, 'Sio', 'Generated')


class TranslatorError(Exception):
    """The source has a shape the translator cannot express at all (the table rows have an
    `opaque` escape for expressions; this is for a missing class / method / attribute)."""


def lean_str(s):
    """Python str -> Lean term of type `List Char` (explicit list; no String machinery to unfold)."""
    out = []
    for c in s:
        o = ord(c)
        if 32 <= o < 127 and c not in "'\\\"":
            out.append("'%s'" % c)
        else:
            out.append('Char.ofNat %d' % o)
    return '[' + ', '.join(out) + ']'


def lean_list(items):
    return '[' + ', '.join(items) + ']'


def write_if_changed(path, text):
    os.makedirs(os.path.dirname(path), exist_ok=True)
    try:
        with open(path, encoding='utf-8') as f:
            if f.read() == text:
                return False
    except FileNotFoundError:
        pass
    tmp = path + '.tmp%d' % os.getpid()
    with open(tmp, 'w', encoding='utf-8') as f:
        f.write(text)
    os.replace(tmp, path)
    return True


def run(repo=None, out_dir=None):
    """-> {filename: changed?}.  Raises TranslatorError when a file cannot be produced; the files
    that can be produced are still written."""
    from . import translate_reserved, translate_forward, translate_constants
    repo = repo or os.environ.get('VERIF_REPO', '/repo')
    out_dir = out_dir or GEN_DIR
    os.makedirs(out_dir, exist_ok=True)
    lock = open(os.path.join(LEAN, '.build.lock'), 'w')
    fcntl.flock(lock, fcntl.LOCK_EX)
    changed, errors = {}, []
    try:
        for name, mod in (('Reserved.lean', translate_reserved), ('Forward.lean', translate_forward),
                          ('Constants.lean', translate_constants)):
            try:
                text = mod.generate(repo)
            except TranslatorError as e:
                errors.append('%s: %s' % (name, e))
                continue
            changed[name] = write_if_changed(os.path.join(out_dir, name), text)
    finally:
        fcntl.flock(lock, fcntl.LOCK_UN)
        lock.close()
    if errors:
        raise TranslatorError('; '.join(errors))
    return changed


def main():
    try:
        changed = run()
    except TranslatorError as e:
        sys.stderr.write('regen: %s\n' % e)
        return 1
    for k, v in sorted(changed.items()):
        print('regen: %s %s' % (k, 'rewritten' if v else 'unchanged'))
    return 0


if __name__ == '__main__':
    from harness import regen as _regen      # one module identity (TranslatorError is caught by class)
    sys.exit(_regen.main())
